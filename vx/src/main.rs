//! vx — mechanical extractor for the /verif contract checks.
//!
//! Reads a plan (JSON) naming items of the real altrios-core source, finds each
//! item by path in the parsed file, applies the enumerated rewrite rules (see
//! DESIGN.md section 3.2) and prints, per item, the rewritten Rust text plus a
//! provenance record (file, line span, rule counts, marker events).
//! It never invents code: everything it prints is derived from the tokens of
//! the item it found; what it drops or replaces is counted under `rules`.

use proc_macro2::{Span, TokenStream, TokenTree};
use quote::{quote, ToTokens};
use serde::{Deserialize, Serialize};
use std::collections::BTreeMap;
use syn::punctuated::Punctuated;
use syn::visit_mut::{self, VisitMut};
use syn::{parse_quote, Expr, Stmt, Token};

mod iter;

#[derive(Deserialize, Default, Clone, Debug)]
pub struct Opts {
    /// last path segment of a type -> replacement type text
    #[serde(default)]
    pub type_map: BTreeMap<String, String>,
    /// method name -> "ref" | "mut" | "val": `recv.m(a)` becomes `m(&recv, a)`
    #[serde(default)]
    pub free_methods: BTreeMap<String, String>,
    /// generic parameter -> concrete type text
    #[serde(default)]
    pub instantiate: BTreeMap<String, String>,
    /// new name for the extracted fn
    #[serde(default)]
    pub rename: Option<String>,
    /// struct fields to drop
    #[serde(default)]
    pub drop_fields: Vec<String>,
    /// callee (fn or method) name -> new name
    #[serde(default)]
    pub rename_calls: BTreeMap<String, String>,
    /// keep only these derives on structs/enums (default Clone, Copy)
    #[serde(default)]
    pub keep_derives: Option<Vec<String>>,
    /// do not desugar iterator idioms (unit is abstracted or has none)
    #[serde(default)]
    pub no_iter: bool,
    /// treat `assert!` as rt_assert (default) or drop
    #[serde(default)]
    pub drop_asserts: bool,
    /// local aliases `let x = &mut self.state;` are kept (Verus supports them)
    #[serde(default)]
    pub extra: BTreeMap<String, String>,
}

#[derive(Deserialize, Clone, Debug)]
pub struct ItemReq {
    pub id: String,
    pub file: String,
    pub kind: String, // method | fn | struct | enum | traitfn
    #[serde(default)]
    pub self_ty: Option<String>,
    #[serde(default, rename = "trait")]
    pub trait_: Option<String>,
    pub name: String,
    #[serde(default)]
    pub opts: Option<Opts>,
}

#[derive(Deserialize)]
struct Plan {
    src_root: String,
    #[serde(default)]
    uc_file: Option<String>,
    #[serde(default)]
    global: Opts,
    items: Vec<ItemReq>,
}

#[derive(Serialize, Default)]
struct ItemOut {
    id: String,
    ok: bool,
    error: Option<String>,
    text: String,
    file: String,
    line_start: usize,
    line_end: usize,
    rules: BTreeMap<String, usize>,
    events: Vec<String>,
    free_fn: bool,
    impl_of: Option<String>,
}

fn merge(g: &Opts, l: &Option<Opts>) -> Opts {
    let mut o = g.clone();
    if let Some(l) = l {
        o.type_map.extend(l.type_map.clone());
        o.free_methods.extend(l.free_methods.clone());
        o.instantiate.extend(l.instantiate.clone());
        o.rename_calls.extend(l.rename_calls.clone());
        o.extra.extend(l.extra.clone());
        if l.rename.is_some() {
            o.rename = l.rename.clone();
        }
        if !l.drop_fields.is_empty() {
            o.drop_fields = l.drop_fields.clone();
        }
        if l.keep_derives.is_some() {
            o.keep_derives = l.keep_derives.clone();
        }
        o.no_iter |= l.no_iter;
        o.drop_asserts |= l.drop_asserts;
    }
    o
}

pub fn ts_str<T: ToTokens>(t: &T) -> String {
    let s = t.to_token_stream().to_string();
    s.split_whitespace().collect::<Vec<_>>().join("")
}

/// decimal float literal text -> (numerator, denominator) as u128 decimal strings
pub fn parse_float(txt: &str) -> Option<(String, String)> {
    let t: String = txt.chars().filter(|c| *c != '_').collect();
    let t = t.trim_end_matches("f64").trim_end_matches("f32").to_string();
    let (mant, exp) = match t.find(|c| c == 'e' || c == 'E') {
        Some(p) => (t[..p].to_string(), t[p + 1..].parse::<i64>().ok()?),
        None => (t.clone(), 0i64),
    };
    let (ip, fp) = match mant.find('.') {
        Some(p) => (mant[..p].to_string(), mant[p + 1..].to_string()),
        None => (mant.clone(), String::new()),
    };
    let mut digits = format!("{}{}", ip, fp);
    let mut e = exp - fp.len() as i64;
    // strip leading zeros
    let d2 = digits.trim_start_matches('0').to_string();
    digits = if d2.is_empty() { "0".into() } else { d2 };
    if digits == "0" {
        return Some(("0".into(), "1".into()));
    }
    // strip trailing zeros into exponent
    while digits.len() > 1 && digits.ends_with('0') {
        digits.pop();
        e += 1;
    }
    let mut num = digits;
    let mut den = String::from("1");
    if e >= 0 {
        for _ in 0..e {
            num.push('0');
        }
    } else {
        for _ in 0..(-e) {
            den.push('0');
        }
    }
    if num.len() > 38 || den.len() > 38 {
        return None;
    }
    if !num.chars().all(|c| c.is_ascii_digit()) {
        return None;
    }
    Some((num, den))
}

fn qlit_expr(num: &str, den: &str) -> Expr {
    let n = syn::LitInt::new(num, Span::call_site());
    let d = syn::LitInt::new(den, Span::call_site());
    parse_quote!(qlit(#n, #d))
}

/// parse `unit_const!(NAME, T, value)` invocations of uc.rs
fn parse_uc(src: &str) -> BTreeMap<String, String> {
    let mut m = BTreeMap::new();
    if let Ok(f) = syn::parse_file(src) {
        for it in f.items {
            if let syn::Item::Macro(im) = it {
                if im.mac.path.is_ident("unit_const") {
                    let toks: Vec<TokenTree> = im.mac.tokens.clone().into_iter().collect();
                    // skip leading doc attributes (# [..])
                    let mut i = 0;
                    while i + 1 < toks.len() {
                        if let TokenTree::Punct(p) = &toks[i] {
                            if p.as_char() == '#' {
                                i += 2;
                                continue;
                            }
                        }
                        break;
                    }
                    // NAME , T , value...
                    if let Some(TokenTree::Ident(name)) = toks.get(i) {
                        // find second comma
                        let mut commas = 0;
                        let mut j = i;
                        while j < toks.len() && commas < 2 {
                            if let TokenTree::Punct(p) = &toks[j] {
                                if p.as_char() == ',' {
                                    commas += 1;
                                }
                            }
                            j += 1;
                        }
                        let val: String = toks[j..].iter().map(|t| t.to_string()).collect::<Vec<_>>().join("");
                        m.insert(name.to_string(), val);
                    }
                }
            }
        }
    }
    m
}

pub struct Rw<'a> {
    pub opts: &'a Opts,
    pub uc: &'a BTreeMap<String, String>,
    pub consts: &'a BTreeMap<String, Expr>,
    pub rules: BTreeMap<String, usize>,
    pub events: Vec<String>,
    pub errors: Vec<String>,
    pub counters: BTreeMap<String, usize>,
    pub self_free: bool,
}

impl<'a> Rw<'a> {
    pub fn fire(&mut self, r: &str) {
        *self.rules.entry(r.to_string()).or_insert(0) += 1;
    }
    pub fn next(&mut self, key: &str) -> usize {
        let c = self.counters.entry(key.to_string()).or_insert(0);
        *c += 1;
        *c
    }
    pub fn err(&mut self, e: String) {
        self.errors.push(e);
    }

    fn unit_factor(&mut self, unit: &str) -> Option<(String, String, bool)> {
        // returns (num, den, is_identity): value_in_unit = base_value * den / num
        // i.e. 1 unit = num/den base units
        let r = match unit {
            "ratio" | "watt" | "joule" | "meter" | "second" | "kilogram" | "newton" | "meter_per_second"
            | "radian" | "square_meter" | "cubic_meter" | "watt_per_second" | "kelvin" | "hertz" => ("1", "1", true),
            "kilowatt" | "kilometer" | "megagram" | "kilojoule" | "kilonewton" => ("1000", "1", false),
            "megawatt" | "megajoule" => ("1000000", "1", false),
            "watt_hour" | "hour" => ("3600", "1", false),
            "kilowatt_hour" => ("3600000", "1", false),
            "minute" => ("60", "1", false),
            "foot" => ("3048", "10000", false),
            "mile" => ("1609344", "1000", false),
            "mile_per_hour" => ("44704", "100000", false),
            "pound_force" => ("4448222", "1000000", false), // uom: 4.448222 N
            "kilowatt_per_kilogram" | "kilojoule_per_kilogram" => ("1000", "1", false),
            "pound" => ("4535924", "10000000", false),
            "ton_short" => ("9071847", "10000", false),
            _ => return None,
        };
        Some((r.0.to_string(), r.1.to_string(), r.2))
    }

    fn si_unit_of_turbofish(&self, tf: &syn::AngleBracketedGenericArguments) -> Option<String> {
        if tf.args.len() != 1 {
            return None;
        }
        if let syn::GenericArgument::Type(syn::Type::Path(tp)) = &tf.args[0] {
            let segs: Vec<String> = tp.path.segments.iter().map(|s| s.ident.to_string()).collect();
            if segs.len() >= 1 {
                return Some(segs.last().unwrap().clone());
            }
        }
        None
    }

    fn is_si_path(p: &syn::Path) -> bool {
        p.segments.len() >= 2 && p.segments[0].ident == "si"
    }

    fn rewrite_macro_expr(&mut self, mac: &syn::Macro) -> Option<Expr> {
        let name = mac.path.segments.last().map(|s| s.ident.to_string()).unwrap_or_default();
        let first_seg = mac.path.segments.first().map(|s| s.ident.to_string()).unwrap_or_default();
        match name.as_str() {
            "vx_at" | "vx_loop" | "vx_contract" => None,
            "ensure" => {
                let args = mac
                    .parse_body_with(Punctuated::<Expr, Token![,]>::parse_terminated)
                    .ok()?;
                let mut c = args.first()?.clone();
                self.visit_expr_mut(&mut c);
                self.fire("R-ERR.ensure");
                Some(parse_quote!(if !(#c) { return Err(VErr); }))
            }
            "early_err" => {
                // validate.rs: if !errors.is_empty() { errors.push(anyhow!(..)); return Err(errors); }
                let args = mac.parse_body_with(Punctuated::<Expr, Token![,]>::parse_terminated).ok()?;
                let mut e = args.first()?.clone();
                self.visit_expr_mut(&mut e);
                self.fire("R-MACROFN.early_err");
                Some(parse_quote!(if !#e.is_empty() { #e.push(VErr); return Err(#e); }))
            }
            "early_fake_ok" => {
                let args = mac.parse_body_with(Punctuated::<Expr, Token![,]>::parse_terminated).ok()?;
                let mut e = args.first()?.clone();
                self.visit_expr_mut(&mut e);
                self.fire("R-MACROFN.early_fake_ok");
                match self.opts.rename_calls.get("is_fake") {
                    Some(nn) => {
                        let id = syn::Ident::new(nn, Span::call_site());
                        Some(parse_quote!(if #id(#e) { return Ok(()); }))
                    }
                    None => Some(parse_quote!(if #e.is_fake() { return Ok(()); })),
                }
            }
            "bail" => {
                self.fire("R-ERR.bail");
                Some(parse_quote!(return Err(VErr)))
            }
            "anyhow" => {
                self.fire("R-ERR.anyhow");
                Some(parse_quote!(VErr))
            }
            "format" | "format_dbg" | "println" | "print" | "eprintln" | "stringify" => {
                self.fire("R-FMT");
                Some(parse_quote!(()))
            }
            "debug_assert" | "debug_assert_eq" | "debug_assert_ne" => {
                self.fire("R-ASSERT.debug");
                Some(parse_quote!(()))
            }
            "assert" => {
                let args = mac
                    .parse_body_with(Punctuated::<Expr, Token![,]>::parse_terminated)
                    .ok()?;
                let mut c = args.first()?.clone();
                self.visit_expr_mut(&mut c);
                if self.opts.drop_asserts {
                    self.fire("R-ASSERT.drop");
                    Some(parse_quote!(()))
                } else if self
                    .opts
                    .extra
                    .get("opaque_assert_conds")
                    .map(|l| { let t = ts_str(&c).replace(' ', ""); l.split(';').any(|x| !x.trim().is_empty() && t.contains(&x.trim().replace(' ', ""))) })
                    .unwrap_or(false)
                {
                    // R-ASSERT.opaque: the condition uses an operator the verified text cannot type (e.g. `<=` on
                    // Option<NonZeroU16>); the assert still diverges when false, but NOTHING is learned from passing it
                    self.fire("R-ASSERT.opaque");
                    Some(parse_quote!(rt_assert(vx_arbitrary())))
                } else {
                    self.fire("R-ASSERT.rt");
                    Some(parse_quote!(rt_assert(#c)))
                }
            }
            "assert_eq" | "assert_ne" => {
                let args = mac
                    .parse_body_with(Punctuated::<Expr, Token![,]>::parse_terminated)
                    .ok()?;
                if args.len() < 2 {
                    return None;
                }
                let mut a = args[0].clone();
                let mut b = args[1].clone();
                self.visit_expr_mut(&mut a);
                self.visit_expr_mut(&mut b);
                if self.opts.drop_asserts {
                    self.fire("R-ASSERT.drop");
                    Some(parse_quote!(()))
                } else {
                    self.fire("R-ASSERT.rt");
                    if name == "assert_eq" {
                        Some(parse_quote!(rt_assert(#a == #b)))
                    } else {
                        Some(parse_quote!(rt_assert(#a != #b)))
                    }
                }
            }
            "unreachable" | "todo" | "unimplemented" | "panic" => {
                if self.opts.extra.contains_key("abort_diverges") {
                    self.fire("R-ABORT.diverge");
                    Some(parse_quote!(rt_diverge()))
                } else {
                    self.fire("R-ABORT");
                    Some(parse_quote!(rt_abort()))
                }
            }
            "info" | "debug" | "warn" | "error" | "trace" if first_seg == "log" => {
                self.fire("R-FMT.log");
                Some(parse_quote!(()))
            }
            "vec" => {
                // vec![e; n] / vec![a, b, ..]: rewrite the element expressions
                if let Ok(rep) = mac.parse_body::<syn::ExprRepeat>().or_else(|_| {
                    let ts = mac.tokens.clone();
                    syn::parse2::<syn::ExprRepeat>(quote!([#ts]))
                }) {
                    let mut el = (*rep.expr).clone();
                    let mut n = (*rep.len).clone();
                    self.visit_expr_mut(&mut el);
                    self.visit_expr_mut(&mut n);
                    self.fire("R-VEC.repeat");
                    Some(parse_quote!(vec_repeat(#el, #n)))
                } else if let Ok(list) = mac.parse_body_with(Punctuated::<Expr, Token![,]>::parse_terminated) {
                    let mut els: Vec<Expr> = list.into_iter().collect();
                    for e in els.iter_mut() {
                        self.visit_expr_mut(e);
                    }
                    Some(parse_quote!(vec![#(#els),*]))
                } else {
                    None
                }
            }
            "matches" => None,
            _ => {
                self.err(format!("unsupported macro `{}`", name));
                None
            }
        }
    }
}

fn strip_paren_expr(e: &Expr) -> &Expr {
    match e {
        Expr::Paren(p) => strip_paren_expr(&p.expr),
        _ => e,
    }
}

fn is_boolish(e: &Expr) -> bool {
    match e {
        Expr::MethodCall(m) => m.method.to_string().starts_with("is_"),
        Expr::Binary(b) => matches!(b.op, syn::BinOp::Lt(_) | syn::BinOp::Le(_) | syn::BinOp::Gt(_) | syn::BinOp::Ge(_) | syn::BinOp::Eq(_) | syn::BinOp::Ne(_) | syn::BinOp::And(_) | syn::BinOp::Or(_)),
        Expr::Unary(u) => matches!(u.op, syn::UnOp::Not(_)) && is_boolish(&u.expr),
        Expr::Paren(p) => is_boolish(&p.expr),
        _ => false,
    }
}

fn has_logging_cfg(attrs: &[syn::Attribute]) -> bool {
    attrs.iter().any(|a| {
        a.path().is_ident("cfg") && {
            let s = ts_str(&a.meta);
            s.contains("logging")
        }
    })
}

fn stmt_attrs(s: &Stmt) -> Vec<syn::Attribute> {
    match s {
        Stmt::Local(l) => l.attrs.clone(),
        Stmt::Macro(m) => m.attrs.clone(),
        Stmt::Expr(e, _) => expr_attrs(e),
        Stmt::Item(_) => vec![],
    }
}
fn expr_attrs(e: &Expr) -> Vec<syn::Attribute> {
    match e {
        Expr::Macro(m) => m.attrs.clone(),
        Expr::MethodCall(m) => m.attrs.clone(),
        Expr::Call(m) => m.attrs.clone(),
        Expr::If(m) => m.attrs.clone(),
        Expr::Block(m) => m.attrs.clone(),
        Expr::Assign(m) => m.attrs.clone(),
        _ => vec![],
    }
}


/// `RECV.last_mut().unwrap()` -> Some(RECV)
fn last_mut_unwrap_recv(e: &Expr) -> Option<Expr> {
    if let Expr::MethodCall(u) = e {
        if u.method == "unwrap" && u.args.is_empty() {
            if let Expr::MethodCall(l) = &*u.receiver {
                if l.method == "last_mut" && l.args.is_empty() {
                    return Some((*l.receiver).clone());
                }
            }
        }
    }
    None
}

fn is_marker_stmt(s: &Stmt) -> bool {
    if let Stmt::Macro(m) = s {
        return m.mac.path.is_ident("vx_at") || m.mac.path.is_ident("vx_loop") || m.mac.path.is_ident("vx_contract");
    }
    false
}

fn mentions_word(s: &Stmt, name: &str) -> bool {
    if is_marker_stmt(s) {
        return false;
    }
    let txt = s.to_token_stream().to_string();
    txt.split(|c: char| !(c.is_alphanumeric() || c == '_')).any(|w| w == name)
}

/// a bare `ID` passed as a call argument (it was a `&mut T`, now a `T` value) becomes `&ID`
struct ArgRef(String);
impl VisitMut for ArgRef {
    fn visit_expr_mut(&mut self, e: &mut Expr) {
        visit_mut::visit_expr_mut(self, e);
        let fix = |args: &mut syn::punctuated::Punctuated<Expr, syn::token::Comma>, name: &str| {
            for a in args.iter_mut() {
                if let Expr::Path(p) = a {
                    if p.path.is_ident(name) {
                        let id = p.clone();
                        *a = parse_quote!(&#id);
                    }
                }
            }
        };
        match e {
            Expr::Call(c) => fix(&mut c.args, &self.0),
            Expr::MethodCall(m) => fix(&mut m.args, &self.0),
            _ => {}
        }
    }
}

impl<'a> Rw<'a> {
    /// R-LASTMUT: Verus has no `&mut`-returning calls. `let p = V.last_mut().unwrap(); ..uses of p..` becomes a copy of
    /// the last element, the same statements, and a write-back `V.set(V.len() - 1, p)` after the last use (V must not be
    /// mentioned in between; the element type must be Copy, otherwise the result does not type-check -> undecided).
    /// `V.last_mut().unwrap().f = e;` becomes `{ let __v = e; let __k = V.len() - 1; let mut __t = V[__k]; __t.f = __v; V.set(__k, __t); }`.
    /// An empty V panics in the original (unwrap on None) and underflows `len() - 1` here: both are safety failures.
    /// Statement-level rules on locals:
    /// * R-DESTRUCT.assign: `(a, b) = e;` becomes `{ let __t = e; a = __t.0; b = __t.1; }` (a, b plain paths).
    /// * R-OPAQUE.init (option `opaque_locals` = "name:Type;..."): the initialiser of the named local is dropped and the
    ///   local starts with an arbitrary value of the stated type (`vx_arbitrary()`, no postcondition). Whatever is proved
    ///   holds for every initial value, the real one included; side effects / panics of the dropped initialiser are NOT
    ///   covered (the evidence lists the rule).
    fn local_rules_pass(&mut self, stmts: Vec<Stmt>) -> Vec<Stmt> {
        let opaque: Vec<(String, String)> = self
            .opts
            .extra
            .get("opaque_locals")
            .map(|l| {
                l.split(';')
                    .filter_map(|kv| kv.split_once(':').map(|(k, v)| (k.trim().to_string(), v.trim().to_string())))
                    .collect()
            })
            .unwrap_or_default();
        let n = stmts.len();
        let mut out: Vec<Stmt> = Vec::with_capacity(n);
        for i in 0..n {
            let s = &stmts[i];
            // destructuring assignment
            if let Stmt::Expr(Expr::Assign(a), Some(_)) = s {
                if let Expr::Tuple(t) = &*a.left {
                    if !t.elems.is_empty() && t.elems.iter().all(|e| matches!(e, Expr::Path(_))) {
                        let rhs = &a.right;
                        let mut assigns: Vec<Stmt> = vec![];
                        for (k, e) in t.elems.iter().enumerate() {
                            let ix = syn::Index::from(k);
                            assigns.push(parse_quote!(#e = __t.#ix;));
                        }
                        self.fire("R-DESTRUCT.assign");
                        out.push(parse_quote!({ let __t = #rhs; #(#assigns)* }));
                        continue;
                    }
                }
            }
            if let Stmt::Local(l) = s {
                let name = match &l.pat {
                    syn::Pat::Ident(pi) => Some((pi.ident.clone(), pi.mutability.is_some())),
                    syn::Pat::Type(pt) => match &*pt.pat {
                        syn::Pat::Ident(pi) => Some((pi.ident.clone(), pi.mutability.is_some())),
                        _ => None,
                    },
                    _ => None,
                };
                if let Some((id, is_mut)) = name {
                    let nm = id.to_string();
                    if let Some((_, ty)) = opaque.iter().find(|(k, _)| *k == nm) {
                        match syn::parse_str::<syn::Type>(ty) {
                            Ok(t) => {
                                self.fire("R-OPAQUE.init");
                                if is_mut {
                                    out.push(parse_quote!(let mut #id: #t = vx_arbitrary();));
                                } else {
                                    out.push(parse_quote!(let #id: #t = vx_arbitrary();));
                                }
                                continue;
                            }
                            Err(_) => self.err(format!("R-OPAQUE.init: cannot parse type `{}`", ty)),
                        }
                    }
                }
            }
            out.push(s.clone());
        }
        out
    }

    fn last_mut_pass(&mut self, stmts: Vec<Stmt>) -> Vec<Stmt> {
        let mut out: Vec<Stmt> = Vec::with_capacity(stmts.len());
        let mut i = 0;
        let n = stmts.len();
        let mut pending: Vec<(usize, Stmt)> = vec![]; // (insert after original index, stmt)
        let mut stmts = stmts;
        while i < n {
            // pattern B
            let mut replaced: Option<Stmt> = None;
            if let Stmt::Expr(Expr::Assign(a), Some(_)) = &stmts[i] {
                if let Expr::Field(f) = &*a.left {
                    if let Some(recv) = last_mut_unwrap_recv(&f.base) {
                        let member = &f.member;
                        let val = &a.right;
                        self.fire("R-LASTMUT.assign");
                        replaced = Some(parse_quote!({
                            let __v = #val;
                            let __k = #recv.len() - 1;
                            let mut __t = #recv[__k];
                            __t.#member = __v;
                            #recv.set(__k, __t);
                        }));
                    }
                }
            }
            if let Some(r) = replaced {
                stmts[i] = r;
                i += 1;
                continue;
            }
            // pattern A
            let mut pat_a: Option<(syn::Ident, Expr)> = None;
            if let Stmt::Local(l) = &stmts[i] {
                if let (syn::Pat::Ident(pi), Some(init)) = (&l.pat, &l.init) {
                    if let Some(recv) = last_mut_unwrap_recv(&init.expr) {
                        pat_a = Some((pi.ident.clone(), recv));
                    }
                }
            }
            if let Some((id, recv)) = pat_a {
                let name = id.to_string();
                let mut last = i;
                for j in i + 1..n {
                    if mentions_word(&stmts[j], &name) {
                        last = j;
                    }
                }
                let recv_txt = ts_str(&recv);
                for j in i + 1..=last {
                    if !is_marker_stmt(&stmts[j]) && ts_str(&stmts[j]).contains(&recv_txt) {
                        self.err(format!("R-LASTMUT: `{}` is used while `{}` borrows its last element", recv_txt, name));
                    }
                    ArgRef(name.clone()).visit_stmt_mut(&mut stmts[j]);
                }
                self.fire("R-LASTMUT.let");
                stmts[i] = parse_quote!(let mut #id = #recv[#recv.len() - 1];);
                pending.push((last, parse_quote!(#recv.set(#recv.len() - 1, #id);)));
            }
            i += 1;
        }
        for (k, s) in stmts.into_iter().enumerate() {
            out.push(s);
            for (after, ins) in pending.iter() {
                if *after == k {
                    out.push(ins.clone());
                }
            }
        }
        out
    }
}

impl<'a> VisitMut for Rw<'a> {
    fn visit_type_mut(&mut self, t: &mut syn::Type) {
        visit_mut::visit_type_mut(self, t);
        if let syn::Type::Path(tp) = t {
            if tp.qself.is_none() {
                let p = &tp.path;
                let last = p.segments.last().unwrap();
                let lname = last.ident.to_string();
                if Self::is_si_path(p) && p.segments.len() == 2 {
                    self.fire("R-TY.si");
                    *t = parse_quote!(Q);
                    return;
                }
                if lname == "Quantity" {
                    self.fire("R-TY.si");
                    *t = parse_quote!(Q);
                    return;
                }
                if p.is_ident("f64") {
                    self.fire("R-TY.f64");
                    *t = parse_quote!(Q);
                    return;
                }
                if p.segments.len() >= 2 {
                    let n = p.segments.len();
                    let qn = format!("{}::{}", p.segments[n - 2].ident, lname);
                    if let Some(rep) = self.opts.type_map.get(&qn) {
                        if let Ok(nt) = syn::parse_str::<syn::Type>(rep) {
                            self.fire("R-TY.map");
                            *t = nt;
                            return;
                        }
                    }
                }
                if let Some(rep) = self.opts.type_map.get(&lname) {
                    if let Ok(nt) = syn::parse_str::<syn::Type>(rep) {
                        self.fire("R-TY.map");
                        *t = nt;
                        return;
                    }
                }
                if let Some(rep) = self.opts.instantiate.get(&lname) {
                    if p.segments.len() == 1 {
                        if let Ok(nt) = syn::parse_str::<syn::Type>(rep) {
                            self.fire("R-SELF.inst");
                            *t = nt;
                            return;
                        }
                    }
                }
                // anyhow::Result<T> -> AResult<T>
                if p.segments.len() == 2 && p.segments[0].ident == "anyhow" && lname == "Result" {
                    let args = last.arguments.clone();
                    self.fire("R-ERR.result");
                    *t = parse_quote!(AResult #args);
                    return;
                }
                if p.segments.len() == 1 && lname == "ValidationResults" {
                    self.fire("R-ERR.valresult");
                    *t = parse_quote!(Result<(), VErrors>);
                    return;
                }
                if p.segments.len() >= 2 && (p.segments[0].ident == "crate" || p.segments[0].ident == "super") {
                    let l = last.clone();
                    self.fire("R-PATH.strip");
                    *t = parse_quote!(#l);
                    return;
                }
                if lname == "ValidationErrors" {
                    self.fire("R-ERR.valerrors");
                    *t = parse_quote!(VErrors);
                    return;
                }
            }
        }
    }

    fn visit_block_mut(&mut self, b: &mut syn::Block) {
        // statement-level rewriting: drop logging stmts, expand statement macros
        let old = std::mem::take(&mut b.stmts);
        let old = self.last_mut_pass(old);
        let old = self.local_rules_pass(old);
        let mut out: Vec<Stmt> = Vec::with_capacity(old.len());
        for mut s in old.into_iter() {
            if has_logging_cfg(&stmt_attrs(&s)) {
                self.fire("R-FMT.cfg_logging");
                continue;
            }
            match &mut s {
                Stmt::Macro(sm) => {
                    let nm = sm.mac.path.segments.last().map(|x| x.ident.to_string()).unwrap_or_default();
                    if nm == "vx_at" || nm == "vx_loop" || nm == "vx_contract" {
                        out.push(s);
                        continue;
                    }
                    let semi = sm.semi_token.is_some();
                    match self.rewrite_macro_expr(&sm.mac) {
                        Some(e) => {
                            if let Expr::Tuple(t) = &e {
                                if t.elems.is_empty() {
                                    // removed statement
                                    continue;
                                }
                            }
                            // `if` without semicolon is fine as a statement
                            let is_if = matches!(e, Expr::If(_));
                            if semi || is_if {
                                out.push(Stmt::Expr(e, if is_if { None } else { Some(Default::default()) }));
                            } else {
                                out.push(Stmt::Expr(e, None));
                            }
                        }
                        None => {
                            out.push(s);
                        }
                    }
                }
                _ => {
                    self.visit_stmt_mut(&mut s);
                    // a statement that became `();` is dropped
                    if let Stmt::Expr(Expr::Tuple(t), Some(_)) = &s {
                        if t.elems.is_empty() {
                            continue;
                        }
                    }
                    out.push(s);
                }
            }
        }
        // R-FMT.dead_let: a binding that only fed a removed message macro and is built by an iterator chain
        if self.opts.extra.contains_key("drop_dead_iter_lets") {
            let mut keep: Vec<Stmt> = Vec::with_capacity(out.len());
            let n = out.len();
            for i in 0..n {
                let mut dead = false;
                if let Stmt::Local(l) = &out[i] {
                    if let (syn::Pat::Type(pt), Some(init)) = (&l.pat, &l.init) {
                        if let syn::Pat::Ident(pi) = &*pt.pat {
                            let name = pi.ident.to_string();
                            let t = ts_str(&init.expr);
                            if t.contains(".filter(") || t.contains(".collect()") {
                                let used = out[i + 1..].iter().any(|s2| {
                                    if let Stmt::Macro(m) = s2 {
                                        if m.mac.path.is_ident("vx_at") || m.mac.path.is_ident("vx_loop") {
                                            return false;
                                        }
                                    }
                                    let txt = s2.to_token_stream().to_string();
                                    txt.split(|c: char| !(c.is_alphanumeric() || c == '_')).any(|w| w == name)
                                });
                                dead = !used;
                            }
                        }
                    }
                }
                if dead {
                    self.fire("R-FMT.dead_let");
                } else {
                    keep.push(out[i].clone());
                }
            }
            out = keep;
        }
        b.stmts = out;
    }

    fn visit_expr_mut(&mut self, e: &mut Expr) {
        // R-ERR.try_from (option `try_converts` = "f,g"): `f(..)?` where f's error type is not the caller's (the real `?`
        // goes through `From`, e.g. ComboErrors -> anyhow::Error): written out as
        // `match f(..) { Ok(v) => v, Err(_) => return Err(VErr) }` (errors carry no payload in the verified text, R-ERR)
        if let Expr::Try(t) = e {
            if let Expr::Call(c) = &*t.expr {
                if let Expr::Path(p) = &*c.func {
                    let name = p.path.segments.last().map(|s| s.ident.to_string()).unwrap_or_default();
                    let listed = self.opts.extra.get("try_converts").map(|l| l.split(',').any(|x| x.trim() == name)).unwrap_or(false);
                    if listed {
                        let inner = (*t.expr).clone();
                        self.fire("R-ERR.try_from");
                        *e = parse_quote!(match #inner { Ok(__ok) => __ok, Err(_) => return Err(VErr) });
                    }
                }
            }
        }
        // R-STD.usize_max: `<expr>.len().max(k)` is Ord::max on usize (Verus cannot specify provided trait methods):
        // replaced by the free function usize_max(a, b) whose (verified) body is `if a >= b { a } else { b }`
        if let Expr::MethodCall(mc) = e {
            if mc.method == "max" && mc.args.len() == 1 {
                if let Expr::MethodCall(inner) = &*mc.receiver {
                    if inner.method == "len" && inner.args.is_empty() {
                        let a = (*mc.receiver).clone();
                        let b = mc.args[0].clone();
                        self.fire("R-STD.usize_max");
                        *e = parse_quote!(usize_max(#a, #b));
                    }
                }
            }
        }
        // struct literals: a field dropped from the struct (R-TY.drop_field) is dropped from its literals too
        if let Expr::Struct(st) = e {
            if let Some(list) = self.opts.extra.get("drop_literal_fields") {
                let names: Vec<String> = list.split(',').map(|x| x.trim().to_string()).collect();
                let before = st.fields.len();
                let kept: syn::punctuated::Punctuated<syn::FieldValue, syn::token::Comma> = st
                    .fields
                    .iter()
                    .filter(|f| match &f.member {
                        syn::Member::Named(id) => !names.contains(&id.to_string()),
                        _ => true,
                    })
                    .cloned()
                    .collect();
                if kept.len() != before {
                    st.fields = kept;
                    self.fire("R-TY.drop_field.literal");
                }
            }
        }
        // iterator idioms are recognised top-down before children are rewritten
        if !self.opts.no_iter {
            if let Some(mut ne) = iter::desugar(self, e) {
                // rewrite the generated expression (its pieces are original sub-expressions)
                self.visit_expr_mut(&mut ne);
                *e = ne;
                return;
            }
        }
        // unit conversions carry `si::unit` in a turbofish: handle before the type visitor sees it
        if let Expr::MethodCall(mc) = e {
            if mc.method == "get" && mc.turbofish.is_some() && mc.args.is_empty() {
                let tf = mc.turbofish.clone().unwrap();
                if let Some(unit) = self.si_unit_of_turbofish(&tf) {
                    match self.unit_factor(&unit) {
                        Some((n, d, ident)) => {
                            let mut recv = (*mc.receiver).clone();
                            self.visit_expr_mut(&mut recv);
                            self.fire("R-UNIT.get");
                            *e = if ident {
                                parse_quote!((#recv))
                            } else {
                                let f = qlit_expr(&n, &d);
                                parse_quote!(((#recv) / #f))
                            };
                            return;
                        }
                        None => {
                            self.err(format!("unknown unit `{}`", unit));
                            return;
                        }
                    }
                }
            }
        }
        if let Expr::Call(c) = e {
            if let Expr::Path(p) = &*c.func {
                let segs: Vec<String> = p.path.segments.iter().map(|s| s.ident.to_string()).collect();
                if segs.len() == 3 && segs[0] == "si" && segs[2] == "new" && c.args.len() == 1 {
                    if let syn::PathArguments::AngleBracketed(tf) = &p.path.segments[2].arguments {
                        if let Some(unit) = self.si_unit_of_turbofish(tf) {
                            match self.unit_factor(&unit) {
                                Some((n, d, ident)) => {
                                    let mut v = c.args[0].clone();
                                    self.visit_expr_mut(&mut v);
                                    self.fire("R-UNIT.new");
                                    *e = if ident {
                                        parse_quote!((#v))
                                    } else {
                                        let f = qlit_expr(&n, &d);
                                        parse_quote!(((#v) * #f))
                                    };
                                    return;
                                }
                                None => {
                                    self.err(format!("unknown unit `{}`", unit));
                                    return;
                                }
                            }
                        }
                    }
                }
            }
        }
        // Option::map(|p| body) on a non-iterator receiver -> match
        if let Expr::MethodCall(mc) = e {
            if mc.method == "map" && mc.args.len() == 1 && mc.turbofish.is_none() {
                if let Expr::Closure(cl) = &mc.args[0] {
                    if cl.inputs.len() == 1 && !iter::is_iter_chain(&mc.receiver) {
                        let pat = cl.inputs[0].clone();
                        let body = (*cl.body).clone();
                        let recv = (*mc.receiver).clone();
                        self.fire("R-OPTMAP");
                        let mut ne: Expr = parse_quote!(match #recv { Some(#pat) => Some(#body), None => None });
                        self.visit_expr_mut(&mut ne);
                        *e = ne;
                        return;
                    }
                }
            }
        }
        visit_mut::visit_expr_mut(self, e);
        let mut replacement: Option<Expr> = None;
        match e {
            Expr::Lit(l) => {
                if let syn::Lit::Float(f) = &l.lit {
                    match parse_float(&f.to_string()) {
                        Some((n, d)) => {
                            self.fire("R-UNIT.lit");
                            replacement = Some(qlit_expr(&n, &d));
                        }
                        None => self.err(format!("float literal `{}` not representable", f)),
                    }
                }
            }
            Expr::Path(p) if p.qself.is_none() => {
                let segs: Vec<String> = p.path.segments.iter().map(|s| s.ident.to_string()).collect();
                if segs.len() >= 3 {
                    // mod::Type::assoc -> MappedType::assoc
                    let qn = format!("{}::{}", segs[segs.len() - 3], segs[segs.len() - 2]);
                    if let Some(rep) = self.opts.type_map.get(&qn) {
                        let id = syn::Ident::new(rep, Span::call_site());
                        let last = p.path.segments.last().unwrap().clone();
                        self.fire("R-TY.map");
                        *e = parse_quote!(#id::#last);
                        return;
                    }
                }
                if segs.len() == 2 && segs[0] == "uc" {
                    match self.uc.get(&segs[1]).and_then(|v| parse_float(v)) {
                        Some((n, d)) => {
                            self.fire("R-UNIT.uc");
                            replacement = Some(qlit_expr(&n, &d));
                        }
                        None => {
                            if self.uc.contains_key(&segs[1]) {
                                self.err(format!("uc::{} has no decimal value", segs[1]))
                            }
                        }
                    }
                } else if segs.len() >= 2 && segs[segs.len() - 1] == "ZERO" && (segs[0] == "uom" || segs[0] == "Q" || self.opts.instantiate.contains_key(&segs[0])) {
                    self.fire("R-UNIT.zero");
                    replacement = Some(parse_quote!(Q::zero()));
                } else if segs.len() == 2 && (segs[0] == "ValidationErrors" || segs[0] == "ComboErrors") {
                    let l = p.path.segments.last().unwrap().clone();
                    self.fire("R-ERR.valerrors");
                    replacement = Some(parse_quote!(VErrors::#l));
                } else if segs.len() == 3 && segs[0] == "si" && segs[2] == "ZERO" {
                    self.fire("R-UNIT.zero");
                    replacement = Some(parse_quote!(Q::zero()));
                } else if segs.len() == 2 && segs[0] == "f64" {
                    match segs[1].as_str() {
                        "INFINITY" => {
                            self.fire("R-NAN.inf");
                            replacement = Some(parse_quote!(Q::inf()));
                        }
                        "NEG_INFINITY" => {
                            self.fire("R-NAN.neginf");
                            replacement = Some(parse_quote!(Q::neg_inf()));
                        }
                        "NAN" => {
                            self.fire("R-NAN.nan");
                            replacement = Some(parse_quote!(Q::nan()));
                        }
                        "EPSILON" => {
                            self.fire("R-UNIT.eps");
                            replacement = Some(qlit_expr("2220446049250313", "10000000000000000000000000000000"));
                        }
                        _ => {}
                    }
                } else if segs.len() == 1 && self.opts.extra.contains_key("uc_local") && self.uc.contains_key(&segs[0]) {
                    match self.uc.get(&segs[0]).and_then(|v| parse_float(v)) {
                        Some((n, d)) => {
                            self.fire("R-UNIT.uc");
                            replacement = Some(qlit_expr(&n, &d));
                        }
                        None => self.err(format!("uc constant {} has no decimal value", segs[0])),
                    }
                } else if segs.len() == 1 {
                    if let Some(c) = self.consts.get(&segs[0]) {
                        let mut c = c.clone();
                        self.fire("R-CONST");
                        self.visit_expr_mut(&mut c);
                        replacement = Some(c);
                    }
                }
            }
            Expr::Macro(m) => {
                replacement = self.rewrite_macro_expr(&m.mac);
            }
            Expr::Binary(b) => {
                use syn::BinOp::*;
                let op: Option<syn::BinOp> = match b.op {
                    AddAssign(_) => Some(Add(Default::default())),
                    SubAssign(_) => Some(Sub(Default::default())),
                    MulAssign(_) => Some(Mul(Default::default())),
                    DivAssign(_) => Some(Div(Default::default())),
                    _ => None,
                };
                if let Some(op) = op {
                    let l = &b.left;
                    let r = &b.right;
                    self.fire("R-OPASSIGN");
                    if matches!(op, Add(_)) && (self.opts.extra.get("usize_add_diverges").map(|v| v == "all").unwrap_or(false) || (self.opts.extra.contains_key("usize_add_diverges") && matches!(strip_paren_expr(r), Expr::Lit(x) if matches!(x.lit, syn::Lit::Int(_))))) {
                        self.fire("R-ADD.diverge");
                        replacement = Some(parse_quote!(#l = add_or_panic(#l, #r)));
                    } else if matches!(op, Sub(_)) && self.opts.extra.contains_key("usize_sub_diverges") && matches!(strip_paren_expr(r), Expr::Lit(x) if matches!(x.lit, syn::Lit::Int(_))) {
                        self.fire("R-SUB.diverge");
                        replacement = Some(parse_quote!(#l = sub_or_panic(#l, #r)));
                    } else {
                        replacement = Some(parse_quote!(#l = #l #op (#r)));
                    }
                } else if matches!(b.op, Add(_)) && self.opts.extra.contains_key("usize_add_diverges") && matches!(strip_paren_expr(&b.right), Expr::Lit(l) if matches!(l.lit, syn::Lit::Int(_))) {
                    // R-ADD.diverge: `n + k` on usize panics on overflow in a debug build; a 64-bit step counter
                    // cannot overflow in any run that terminates: modelled as diverging
                    let l = &b.left;
                    let r = strip_paren_expr(&b.right);
                    self.fire("R-ADD.diverge");
                    replacement = Some(parse_quote!(add_or_panic(#l, #r)));
                } else if matches!(b.op, Sub(_)) && self.opts.extra.contains_key("usize_sub_diverges") && matches!(strip_paren_expr(&b.right), Expr::Lit(l) if matches!(l.lit, syn::Lit::Int(_))) {
                    // R-SUB.diverge: `n - k` on usize panics on underflow in a debug build (and the wrapped value is
                    // rejected by the following bounds-checked access in release): modelled as diverging
                    let l = &b.left;
                    let r = &b.right;
                    self.fire("R-SUB.diverge");
                    replacement = Some(parse_quote!(sub_or_panic(#l, #r)));
                } else if matches!(b.op, BitAnd(_) | BitOr(_)) && (is_boolish(&b.left) || is_boolish(&b.right)) {
                    // R-BOOLOP: non-short-circuit `&` / `|` on pure boolean operands
                    let l = &b.left;
                    let r = &b.right;
                    self.fire("R-BOOLOP");
                    replacement = Some(if matches!(b.op, BitAnd(_)) { parse_quote!(#l && #r) } else { parse_quote!(#l || #r) });
                }
            }
            Expr::Cast(c) => {
                if let syn::Type::Path(tp) = &*c.ty {
                    if tp.path.is_ident("u32") && self.opts.extra.get("q_to_u32_casts").map(|l| l.split(',').any(|f| ts_str(&c.expr).ends_with(f.trim()))).unwrap_or(false) {
                        // f64 -> u32 `as` cast (saturating truncation): an uninterpreted function of the real value
                        let inner = &c.expr;
                        self.fire("R-CAST.q_to_u32");
                        replacement = Some(parse_quote!(q_to_u32(#inner)));
                    } else if tp.path.is_ident("Q") {
                        let inner = &c.expr;
                        self.fire("R-CAST.toQ");
                        replacement = Some(parse_quote!(Q::from_usize((#inner) as usize)));
                    }
                }
            }
            Expr::Index(ix) if self.opts.extra.contains_key("checked_index_diverges") => {
                // R-CHECKED: safe indexing panics when out of range: modelled as diverging (no obligation);
                // only former get_unchecked sites (R-UNSAFE) remain as plain, to-be-proved indexing
                if !matches!(&*ix.index, Expr::Range(_)) {
                    let b = &ix.expr;
                    let i = &ix.index;
                    self.fire("R-CHECKED.index");
                    replacement = Some(parse_quote!((*checked_index(&#b, #i))));
                }
            }
            Expr::Assign(a) if self.opts.extra.contains_key("checked_index_diverges") => {
                // `v[i] = x` where the lhs was rewritten to (*checked_index(&v, i)) by the child visit
                if let Expr::Paren(p) = &*a.left {
                    if let Expr::Unary(u) = &*p.expr {
                        if let Expr::Call(c) = &*u.expr {
                            if ts_str(&c.func) == "checked_index" && c.args.len() == 2 {
                                if let Expr::Reference(r) = &c.args[0] {
                                    let b = &r.expr;
                                    let i = &c.args[1];
                                    let v = &a.right;
                                    self.fire("R-CHECKED.set");
                                    replacement = Some(parse_quote!({ let __ci: usize = #i; let __cv = #v; checked_bounds(#b.len(), __ci); #b[__ci] = __cv; }));
                                }
                            }
                        }
                    }
                }
            }
            Expr::Unsafe(u) => {
                let blk = &u.block;
                self.fire("R-UNSAFE.block");
                replacement = Some(parse_quote!(#blk));
            }
            Expr::Call(c) => {
                // rename free function calls: last path segment
                if let Expr::Path(p) = &mut *c.func {
                    let segs: Vec<String> = p.path.segments.iter().map(|s| s.ident.to_string()).collect();
                    let last = segs.last().cloned().unwrap_or_default();
                    // si::X::new::<si::unit>(v)
                    if segs.len() == 3 && segs[0] == "si" && segs[2] == "new" {
                        if let syn::PathArguments::AngleBracketed(tf) = &p.path.segments[2].arguments {
                            if let Some(unit) = self.si_unit_of_turbofish(tf) {
                                if let Some((n, d, ident)) = self.unit_factor(&unit) {
                                    let v = &c.args[0];
                                    self.fire("R-UNIT.new");
                                    replacement = Some(if ident {
                                        parse_quote!((#v))
                                    } else {
                                        let f = qlit_expr(&n, &d);
                                        parse_quote!(((#v) * #f))
                                    });
                                } else {
                                    self.err(format!("unknown unit `{}`", unit));
                                }
                            }
                        }
                    } else if let Some(nn) = self.opts.rename_calls.get(&last) {
                        let id = syn::Ident::new(nn, Span::call_site());
                        self.fire("R-MACROFN.rename");
                        let args = &c.args;
                        replacement = Some(parse_quote!(#id(#args)));
                    } else if segs.len() >= 2 && (segs[0] == "utils" || segs[0] == "crate" || segs[0] == "super" || segs[0] == "uc") {
                        // strip module qualification: utils::f(..) -> f(..)
                        let id = p.path.segments.last().unwrap().clone();
                        let args = &c.args;
                        self.fire("R-PATH.strip");
                        replacement = Some(parse_quote!(#id(#args)));
                    }
                }
            }
            Expr::MethodCall(mc) => {
                let m = mc.method.to_string();
                let recv = &mc.receiver;
                let args = &mc.args;
                match m.as_str() {
                    "get" if mc.turbofish.is_some() => {
                        let tf = mc.turbofish.as_ref().unwrap();
                        if let Some(unit) = self.si_unit_of_turbofish(tf) {
                            match self.unit_factor(&unit) {
                                Some((n, d, ident)) => {
                                    self.fire("R-UNIT.get");
                                    replacement = Some(if ident {
                                        parse_quote!((#recv))
                                    } else {
                                        // value in unit = base / (n/d)
                                        let f = qlit_expr(&n, &d);
                                        parse_quote!(((#recv) / #f))
                                    });
                                }
                                None => self.err(format!("unknown unit `{}`", unit)),
                            }
                        }
                    }
                    "with_context" | "context" => {
                        self.fire("R-ERR.ctx");
                        replacement = Some(parse_quote!(#recv.ctx()));
                    }
                    "map_err" => {
                        self.fire("R-ERR.map_err");
                        replacement = Some(parse_quote!(#recv));
                    }
                    "ok_or_else" => {
                        self.fire("R-ERR.ok_or_else");
                        replacement = Some(parse_quote!(#recv.ok_or(VErr)));
                    }
                    "powi" if args.len() == 1 && ts_str(&args[0]).starts_with("typenum::P") => {
                        // uom's type-level exponent: typenum::P2::new() -> 2
                        let t = ts_str(&args[0]);
                        let n: String = t.trim_start_matches("typenum::P").chars().take_while(|c| c.is_ascii_digit()).collect();
                        if let Ok(k) = n.parse::<i32>() {
                            let lit = syn::LitInt::new(&k.to_string(), Span::call_site());
                            self.fire("R-UNIT.powi");
                            replacement = Some(parse_quote!(#recv.powi(#lit)));
                        }
                    }
                    "unwrap" if args.is_empty() && matches!(&**recv, Expr::MethodCall(m) if m.method == "try_into" && m.args.is_empty()) => {
                        // R-TRYINTO: `x.try_into().unwrap()` panics when the value does not fit: modelled as diverging
                        if let Expr::MethodCall(m) = &**recv {
                            let inner = &m.receiver;
                            self.fire("R-TRYINTO");
                            replacement = Some(parse_quote!(try_into_unwrap(#inner)));
                        }
                    }
                    "unwrap_or_else" if args.len() == 1 => {
                        if let Expr::Closure(cl) = &args[0] {
                            if cl.inputs.is_empty() {
                                let body = &cl.body;
                                self.fire("R-OPTMAP.unwrap_or_else");
                                replacement = Some(parse_quote!(match #recv { Some(__v) => __v, None => #body }));
                            }
                        }
                    }
                    "unwrap_or_default" => {
                        self.fire("R-UNIT.unwrap_or_default");
                        // on a quantity: 0.0; on another type the group names the (glue) function that stands for
                        // `<T as Default>::default()`
                        match self.opts.extra.get("unwrap_or_default_fn").and_then(|f| syn::parse_str::<syn::Path>(f).ok()) {
                            Some(f) => replacement = Some(parse_quote!(#recv.unwrap_or(#f()))),
                            None => replacement = Some(parse_quote!(#recv.unwrap_or(Q::zero()))),
                        }
                    }
                    "get_unchecked" => {
                        self.fire("R-UNSAFE.get_unchecked");
                        let a = &args[0];
                        replacement = Some(parse_quote!((&#recv[#a])));
                    }
                    "get_unchecked_mut" => {
                        self.fire("R-UNSAFE.get_unchecked_mut");
                        let a = &args[0];
                        replacement = Some(parse_quote!((&mut #recv[#a])));
                    }
                    "as_ref" if args.is_empty() && self.opts.extra.contains_key("strip_as_ref") => {
                        self.fire("R-GENERIC.as_ref");
                        replacement = Some(parse_quote!(#recv));
                    }
                    _ => {
                        if let Some(mode) = self.opts.free_methods.get(&m) {
                            let id = match self.opts.rename_calls.get(&m) {
                                Some(n) => syn::Ident::new(n, Span::call_site()),
                                None => mc.method.clone(),
                            };
                            self.fire("R-SELF.call");
                            replacement = Some(match mode.as_str() {
                                "mut" => parse_quote!(#id(&mut #recv, #args)),
                                "ref" => parse_quote!(#id(&#recv, #args)),
                                _ => parse_quote!(#id(#recv, #args)),
                            });
                        } else if let Some(nn) = self.opts.rename_calls.get(&m) {
                            let id = syn::Ident::new(nn, Span::call_site());
                            self.fire("R-MACROFN.rename");
                            let tf = &mc.turbofish;
                            replacement = Some(parse_quote!(#recv.#id #tf (#args)));
                        }
                    }
                }
            }
            _ => {}
        }
        if let Some(r) = replacement {
            *e = r;
        }
    }
}

// ---------------------------------------------------------------------------
// marker insertion (runs on the ORIGINAL tokens, before rewriting)

struct Marker {
    counters: BTreeMap<String, usize>,
    events: Vec<String>,
    /// set by the parent: the next block visited is in unit (statement) context
    pending_unit: Option<bool>,
}

fn short(s: String) -> String {
    let s: String = s.chars().filter(|c| !c.is_whitespace() && *c != '"').collect();
    if s.len() > 60 {
        s[..60].to_string()
    } else {
        s
    }
}

fn expr_key(e: &Expr) -> String {
    match e {
        Expr::Assign(a) => format!("assign:{}", short(ts_str(&a.left))),
        Expr::Binary(b) => {
            use syn::BinOp::*;
            match b.op {
                AddAssign(_) | SubAssign(_) | MulAssign(_) | DivAssign(_) => {
                    format!("assign:{}", short(ts_str(&b.left)))
                }
                _ => "expr".to_string(),
            }
        }
        Expr::MethodCall(m) => format!("call:{}", m.method),
        Expr::Call(c) => {
            if let Expr::Path(p) = &*c.func {
                format!("call:{}", p.path.segments.last().map(|s| s.ident.to_string()).unwrap_or_default())
            } else {
                "call".to_string()
            }
        }
        Expr::Try(t) => expr_key(&t.expr),
        Expr::If(_) => "if".to_string(),
        Expr::While(_) => "while".to_string(),
        Expr::ForLoop(_) => "for".to_string(),
        Expr::Loop(_) => "loop".to_string(),
        Expr::Match(_) => "match".to_string(),
        Expr::Return(_) => "return".to_string(),
        Expr::Break(_) => "break".to_string(),
        Expr::Continue(_) => "continue".to_string(),
        Expr::Block(_) | Expr::Unsafe(_) => "block".to_string(),
        Expr::Macro(m) => format!("macro:{}", m.mac.path.segments.last().map(|s| s.ident.to_string()).unwrap_or_default()),
        Expr::Paren(p) => expr_key(&p.expr),
        _ => "expr".to_string(),
    }
}

fn pat_first_ident(p: &syn::Pat) -> String {
    match p {
        syn::Pat::Ident(i) => i.ident.to_string(),
        syn::Pat::Type(t) => pat_first_ident(&t.pat),
        syn::Pat::Tuple(t) => t.elems.first().map(pat_first_ident).unwrap_or_else(|| "_".into()),
        syn::Pat::TupleStruct(t) => t.elems.first().map(pat_first_ident).unwrap_or_else(|| "_".into()),
        syn::Pat::Reference(r) => pat_first_ident(&r.pat),
        _ => "_".to_string(),
    }
}

impl Marker {
    fn next(&mut self, key: &str) -> usize {
        let c = self.counters.entry(key.to_string()).or_insert(0);
        *c += 1;
        *c
    }
    fn mark(&mut self, pos: &str, key: &str, n: usize) -> Stmt {
        let s = format!("{} {}#{}", pos, key, n);
        self.events.push(s.clone());
        let lit = syn::LitStr::new(&s, Span::call_site());
        parse_quote!(vx_at!(#lit);)
    }
}

impl Marker {
    fn visit_if_unit(&mut self, i: &mut syn::ExprIf) {
        self.visit_expr_mut(&mut i.cond);
        self.pending_unit = Some(true);
        self.visit_block_mut(&mut i.then_branch);
        if let Some((_, eb)) = &mut i.else_branch {
            match &mut **eb {
                Expr::If(i2) => self.visit_if_unit(i2),
                Expr::Block(b) => {
                    self.pending_unit = Some(true);
                    self.visit_block_mut(&mut b.block);
                }
                other => self.visit_expr_mut(other),
            }
        }
    }
}

impl VisitMut for Marker {
    fn visit_block_mut(&mut self, b: &mut syn::Block) {
        let unit = self.pending_unit.take().unwrap_or(false);
        let old = std::mem::take(&mut b.stmts);
        let n_old = old.len();
        let mut out = Vec::with_capacity(n_old * 3);
        for (i, mut s) in old.into_iter().enumerate() {
            if has_logging_cfg(&stmt_attrs(&s)) {
                out.push(s);
                continue;
            }
            let is_last = i + 1 == n_old;
            let (key, is_tail) = match &s {
                Stmt::Local(l) => (format!("let:{}", pat_first_ident(&l.pat)), false),
                Stmt::Macro(m) => (
                    format!("macro:{}", m.mac.path.segments.last().map(|x| x.ident.to_string()).unwrap_or_default()),
                    false,
                ),
                Stmt::Expr(e, semi) => {
                    let k = expr_key(e);
                    let tail = semi.is_none() && is_last && !matches!(e, Expr::If(_) | Expr::While(_) | Expr::ForLoop(_) | Expr::Loop(_) | Expr::Match(_) | Expr::Block(_) | Expr::Unsafe(_));
                    if tail {
                        ("tail".to_string(), true)
                    } else {
                        (k, false)
                    }
                }
                Stmt::Item(_) => ("item".to_string(), false),
            };
            let n = self.next(&key);
            out.push(self.mark("before", &key, n));
            // an `if` in statement position: its blocks are unit context
            let stmt_pos_if = match &s {
                Stmt::Expr(Expr::If(_), semi) => semi.is_some() || !is_last || unit,
                _ => false,
            };
            if stmt_pos_if {
                if let Stmt::Expr(Expr::If(i), _) = &mut s {
                    self.visit_if_unit(i);
                }
            } else {
                self.visit_stmt_mut(&mut s);
            }
            let diverges = matches!(&s, Stmt::Expr(Expr::Return(_), _) | Stmt::Expr(Expr::Break(_), _) | Stmt::Expr(Expr::Continue(_), _));
            let unit_ctrl = unit && matches!(&s, Stmt::Expr(Expr::If(_) | Expr::While(_) | Expr::ForLoop(_) | Expr::Loop(_), None));
            let tail_like = is_tail || (is_last && matches!(&s, Stmt::Expr(_, None)) && !unit_ctrl);
            out.push(s);
            if !tail_like && !diverges {
                out.push(self.mark("after", &key, n));
            }
        }
        b.stmts = out;
    }
    fn visit_expr_mut(&mut self, e: &mut Expr) {
        match e {
            Expr::While(w) => {
                let n = self.next("L:while");
                let s = format!("while#{}", n);
                self.events.push(format!("loop {}", s));
                self.visit_expr_mut(&mut w.cond);
                self.pending_unit = Some(true);
                self.visit_block_mut(&mut w.body);
                let lit = syn::LitStr::new(&s, Span::call_site());
                w.body.stmts.insert(0, parse_quote!(vx_loop!(#lit);));
            }
            Expr::ForLoop(w) => {
                let n = self.next("L:for");
                let s = format!("for#{}", n);
                self.events.push(format!("loop {}", s));
                self.visit_expr_mut(&mut w.expr);
                self.pending_unit = Some(true);
                self.visit_block_mut(&mut w.body);
                let lit = syn::LitStr::new(&s, Span::call_site());
                w.body.stmts.insert(0, parse_quote!(vx_loop!(#lit);));
            }
            Expr::Loop(w) => {
                let n = self.next("L:loop");
                let s = format!("loop#{}", n);
                self.events.push(format!("loop {}", s));
                self.pending_unit = Some(true);
                self.visit_block_mut(&mut w.body);
                let lit = syn::LitStr::new(&s, Span::call_site());
                w.body.stmts.insert(0, parse_quote!(vx_loop!(#lit);));
            }
            Expr::Closure(_) => {
                // closure bodies get no markers (they are inlined by R-ITER / R-OPTMAP)
            }
            _ => visit_mut::visit_expr_mut(self, e),
        }
    }
    fn visit_item_mut(&mut self, _i: &mut syn::Item) {}
}

// ---------------------------------------------------------------------------
// `self` -> `self_` substitution for impls on non-nominal types

struct SelfSub;
impl VisitMut for SelfSub {
    fn visit_expr_mut(&mut self, e: &mut Expr) {
        visit_mut::visit_expr_mut(self, e);
        if let Expr::Path(p) = e {
            if p.path.is_ident("self") {
                *e = parse_quote!(self_);
            }
        }
    }
    fn visit_macro_mut(&mut self, m: &mut syn::Macro) {
        // replace `self` identifiers inside macro token streams too
        fn sub(ts: TokenStream) -> TokenStream {
            ts.into_iter()
                .map(|t| match t {
                    TokenTree::Ident(i) if i == "self" => TokenTree::Ident(proc_macro2::Ident::new("self_", i.span())),
                    TokenTree::Group(g) => {
                        let mut ng = proc_macro2::Group::new(g.delimiter(), sub(g.stream()));
                        ng.set_span(g.span());
                        TokenTree::Group(ng)
                    }
                    o => o,
                })
                .collect()
        }
        m.tokens = sub(m.tokens.clone());
    }
}

fn nominal(ty: &syn::Type) -> Option<String> {
    if let syn::Type::Path(tp) = ty {
        if tp.qself.is_none() && tp.path.segments.len() == 1 {
            let seg = &tp.path.segments[0];
            if matches!(seg.arguments, syn::PathArguments::None) {
                return Some(seg.ident.to_string());
            }
        }
    }
    None
}

fn collect_consts(file: &syn::File) -> BTreeMap<String, Expr> {
    let mut m = BTreeMap::new();
    for it in &file.items {
        if let syn::Item::Const(c) = it {
            if let syn::Type::Path(tp) = &*c.ty {
                if tp.path.is_ident("f64") {
                    m.insert(c.ident.to_string(), (*c.expr).clone());
                }
            }
        }
    }
    m
}

fn filter_derives(attrs: &[syn::Attribute], keep: &[String]) -> Vec<syn::Attribute> {
    let mut kept: Vec<syn::Ident> = vec![];
    for a in attrs {
        if a.path().is_ident("derive") {
            if let Ok(list) = a.parse_args_with(Punctuated::<syn::Path, Token![,]>::parse_terminated) {
                for p in list {
                    if let Some(id) = p.segments.last() {
                        if keep.iter().any(|k| id.ident == k) {
                            kept.push(id.ident.clone());
                        }
                    }
                }
            }
        }
    }
    if kept.is_empty() {
        vec![]
    } else {
        vec![parse_quote!(#[derive(#(#kept),*)])]
    }
}

struct Found<'f> {
    sig: syn::Signature,
    block: syn::Block,
    self_ty: Option<&'f syn::Type>,
    impl_generics: Option<&'f syn::Generics>,
    span_start: usize,
    span_end: usize,
}

fn find_fn<'f>(file: &'f syn::File, req: &ItemReq) -> Option<Found<'f>> {
    fn walk<'f>(items: &'f [syn::Item], req: &ItemReq) -> Option<Found<'f>> {
        for it in items {
            match it {
                syn::Item::Fn(f) if req.kind == "fn" && f.sig.ident == req.name => {
                    return Some(Found {
                        sig: f.sig.clone(),
                        block: (*f.block).clone(),
                        self_ty: None,
                        impl_generics: None,
                        span_start: f.sig.fn_token.span.start().line,
                        span_end: f.block.brace_token.span.close().end().line,
                    });
                }
                syn::Item::Impl(im) if req.kind == "method" => {
                    let st = ts_str(&*im.self_ty);
                    let want = req.self_ty.clone().unwrap_or_default().split_whitespace().collect::<Vec<_>>().join("");
                    if st != want {
                        continue;
                    }
                    let tr = im.trait_.as_ref().map(|(_, p, _)| p.segments.last().unwrap().ident.to_string());
                    if tr != req.trait_ {
                        continue;
                    }
                    for ii in &im.items {
                        if let syn::ImplItem::Fn(f) = ii {
                            if f.sig.ident == req.name {
                                return Some(Found {
                                    sig: f.sig.clone(),
                                    block: f.block.clone(),
                                    self_ty: Some(&*im.self_ty),
                                    impl_generics: Some(&im.generics),
                                    span_start: f.sig.fn_token.span.start().line,
                                    span_end: f.block.brace_token.span.close().end().line,
                                });
                            }
                        }
                    }
                }
                syn::Item::Trait(t) if req.kind == "traitfn" && Some(t.ident.to_string()) == req.trait_ => {
                    for ti in &t.items {
                        if let syn::TraitItem::Fn(f) = ti {
                            if f.sig.ident == req.name {
                                if let Some(b) = &f.default {
                                    return Some(Found {
                                        sig: f.sig.clone(),
                                        block: b.clone(),
                                        self_ty: None,
                                        impl_generics: None,
                                        span_start: f.sig.fn_token.span.start().line,
                                        span_end: b.brace_token.span.close().end().line,
                                    });
                                }
                            }
                        }
                    }
                }
                syn::Item::Mod(m) => {
                    if let Some((_, items)) = &m.content {
                        // skip test modules
                        if m.ident == "tests" || m.ident.to_string().starts_with("test") {
                            continue;
                        }
                        if let Some(f) = walk(items, req) {
                            return Some(f);
                        }
                    }
                }
                _ => {}
            }
        }
        None
    }
    walk(&file.items, req)
}

fn process_fn(req: &ItemReq, opts: &Opts, file: &syn::File, uc: &BTreeMap<String, String>, consts: &BTreeMap<String, Expr>) -> ItemOut {
    let mut out = ItemOut { id: req.id.clone(), file: req.file.clone(), ..Default::default() };
    let found = match find_fn(file, req) {
        Some(f) => f,
        None => {
            out.error = Some(format!("item not found: {} {:?} {:?} {}", req.kind, req.self_ty, req.trait_, req.name));
            return out;
        }
    };
    out.line_start = found.span_start;
    out.line_end = found.span_end;
    let mut sig = found.sig.clone();
    let mut block = found.block.clone();

    // 1. markers on original statements
    let mut mk = Marker { counters: BTreeMap::new(), events: vec![], pending_unit: None };
    mk.pending_unit = Some(matches!(sig.output, syn::ReturnType::Default));
    mk.visit_block_mut(&mut block);
    let cid = syn::LitStr::new(&req.id, Span::call_site());
    block.stmts.insert(0, parse_quote!(vx_contract!(#cid);));

    // 2. self handling
    let mut free_fn = found.self_ty.is_none();
    let mut impl_of: Option<String> = None;
    let mut rules_pre: BTreeMap<String, usize> = BTreeMap::new();
    if let Some(st) = found.self_ty {
        match nominal(st) {
            Some(n) if req.kind != "traitfn" => {
                impl_of = Some(opts.extra.get("impl_as").cloned().unwrap_or(n));
            }
            _ => {
                // impl on Vec<T> / [T] / &[T]: free function with `self_`
                free_fn = true;
                *rules_pre.entry("R-SELF.free".into()).or_insert(0) += 1;
                let mut st2 = st.clone();
                // `impl Trait for &[T]` with `&self`: self is `&&[T]`; use the slice itself
                let mut is_ref_ty = false;
                if let syn::Type::Reference(r) = &st2 {
                    is_ref_ty = true;
                    st2 = (*r.elem).clone();
                }
                if let Some(syn::FnArg::Receiver(rc)) = sig.inputs.first().cloned() {
                    let newarg: syn::FnArg = if rc.reference.is_some() {
                        if rc.mutability.is_some() {
                            parse_quote!(self_: &mut #st2)
                        } else {
                            parse_quote!(self_: &#st2)
                        }
                    } else if is_ref_ty {
                        parse_quote!(self_: &#st2)
                    } else {
                        parse_quote!(self_: #st2)
                    };
                    *sig.inputs.first_mut().unwrap() = newarg;
                    SelfSub.visit_block_mut(&mut block);
                }
            }
        }
    }
    if opts.extra.contains_key("as_free") && !matches!(sig.inputs.first(), Some(syn::FnArg::Receiver(_))) {
        free_fn = true;
        impl_of = None;
        *rules_pre.entry("R-SELF.static_free".into()).or_insert(0) += 1;
    }
    if req.kind == "traitfn" {
        // default trait method: emitted as a method of the instantiating type named in opts.extra["impl_for"]
        if let Some(t) = opts.extra.get("impl_for") {
            impl_of = Some(t.clone());
            free_fn = false;
        }
    }
    // generics: instantiate impl-level params; drop fn-level generics that are instantiated
    if !opts.instantiate.is_empty() {
        let params: Vec<syn::GenericParam> = sig
            .generics
            .params
            .iter()
            .filter(|p| match p {
                syn::GenericParam::Type(t) => !opts.instantiate.contains_key(&t.ident.to_string()),
                _ => true,
            })
            .cloned()
            .collect();
        sig.generics.params = params.into_iter().collect();
        if sig.generics.params.is_empty() {
            sig.generics = Default::default();
        }
        if let Some(wc) = &mut sig.generics.where_clause {
            wc.predicates = Default::default();
        }
        sig.generics.where_clause = None;
    } else if let Some(g) = found.impl_generics {
        if free_fn && !g.params.is_empty() {
            out.error = Some("impl generics present but no `instantiate` given".into());
            return out;
        }
    }
    if let Some(r) = &opts.rename {
        sig.ident = syn::Ident::new(r, Span::call_site());
    }
    if opts.extra.contains_key("drop_generics") {
        sig.generics = Default::default();
    }
    // R-GENERIC.drop_bound: bounds that only serve removed message formatting (Debug, Display) are dropped
    if let Some(list) = opts.extra.get("drop_bounds") {
        let names: Vec<String> = list.split(',').map(|x| x.trim().to_string()).collect();
        let keep = |b: &syn::TypeParamBound| match b {
            syn::TypeParamBound::Trait(t) => !names.contains(&t.path.segments.last().map(|s| s.ident.to_string()).unwrap_or_default()),
            _ => true,
        };
        for gp in sig.generics.params.iter_mut() {
            if let syn::GenericParam::Type(tp) = gp {
                tp.bounds = tp.bounds.iter().filter(|b| keep(b)).cloned().collect();
            }
        }
        if let Some(wc) = sig.generics.where_clause.as_mut() {
            for pr in wc.predicates.iter_mut() {
                if let syn::WherePredicate::Type(pt) = pr {
                    pt.bounds = pt.bounds.iter().filter(|b| keep(b)).cloned().collect();
                }
            }
        }
    }

    // 3. rewriting
    let mut rw = Rw {
        opts,
        uc,
        consts,
        rules: rules_pre,
        events: vec![],
        errors: vec![],
        counters: BTreeMap::new(),
        self_free: free_fn,
    };
    rw.visit_signature_mut(&mut sig);
    rw.visit_block_mut(&mut block);
    // R-MUTPARAM: `mut x: T` becomes `x: T` with `let mut x = x;` as first statement, so that a contract's `x` is
    // unambiguously the value at entry (same semantics)
    {
        let mut shadows: Vec<Stmt> = vec![];
        for inp in sig.inputs.iter_mut() {
            if let syn::FnArg::Typed(pt) = inp {
                if let syn::Pat::Ident(pi) = &mut *pt.pat {
                    if pi.mutability.is_some() && pi.by_ref.is_none() {
                        pi.mutability = None;
                        let id = pi.ident.clone();
                        shadows.push(parse_quote!(let mut #id = #id;));
                        rw.fire("R-MUTPARAM");
                    }
                }
            }
        }
        if !shadows.is_empty() {
            // keep the vx_contract! marker first
            let pos = block.stmts.iter().position(|s| !is_marker_stmt(s)).unwrap_or(block.stmts.len());
            for (k, sh) in shadows.into_iter().enumerate() {
                block.stmts.insert(pos + k, sh);
            }
        }
    }
    // R-FMT.dead_let.named (option `drop_dead_lets` = "a,b"): a top-level local that only fed removed message macros
    // (println!, the message of assert!). Its `let` is dropped; it is an extraction error if, after all rewriting, the
    // name is still mentioned anywhere else in the function. The dropped initialiser is not verified (listed in evidence).
    if let Some(list) = rw.opts.extra.get("drop_dead_lets").cloned() {
        for nm in list.split(',').map(|x| x.trim().to_string()).filter(|x| !x.is_empty()) {
            let pos = block.stmts.iter().position(|s| match s {
                Stmt::Local(l) => match &l.pat {
                    syn::Pat::Ident(pi) => pi.ident == nm,
                    syn::Pat::Type(pt) => matches!(&*pt.pat, syn::Pat::Ident(pi) if pi.ident == nm),
                    _ => false,
                },
                _ => false,
            });
            match pos {
                Some(k) => {
                    let used = block.stmts.iter().enumerate().any(|(j, s2)| j != k && !is_marker_stmt(s2) && mentions_word(s2, &nm));
                    if used {
                        rw.err(format!("R-FMT.dead_let.named: `{}` is still used after message removal", nm));
                    } else {
                        block.stmts.remove(k);
                        rw.fire("R-FMT.dead_let.named");
                    }
                }
                None => rw.err(format!("R-FMT.dead_let.named: no top-level `let {}`", nm)),
            }
        }
    }
    if !rw.errors.is_empty() {
        out.error = Some(rw.errors.join("; "));
    }
    out.rules = rw.rules.clone();
    out.events = mk.events;
    out.events.extend(rw.events.clone());
    out.free_fn = free_fn;
    out.impl_of = impl_of.clone();
    let f: TokenStream = quote!(pub #sig #block);
    out.text = match (&impl_of, free_fn) {
        (Some(t), false) => {
            let tid = syn::Ident::new(t, Span::call_site());
            quote!(impl #tid { #f }).to_string()
        }
        _ => f.to_string(),
    };
    out.ok = out.error.is_none();
    out
}

fn process_type(req: &ItemReq, opts: &Opts, file: &syn::File, uc: &BTreeMap<String, String>, consts: &BTreeMap<String, Expr>) -> ItemOut {
    let mut out = ItemOut { id: req.id.clone(), file: req.file.clone(), ..Default::default() };
    let keep: Vec<String> = opts.keep_derives.clone().unwrap_or_else(|| vec!["Clone".into(), "Copy".into()]);
    fn walk<'f>(items: &'f [syn::Item], req: &ItemReq) -> Option<&'f syn::Item> {
        for it in items {
            match it {
                syn::Item::Struct(s) if req.kind == "struct" && s.ident == req.name => return Some(it),
                syn::Item::Enum(s) if req.kind == "enum" && s.ident == req.name => return Some(it),
                syn::Item::Mod(m) => {
                    if let Some((_, items)) = &m.content {
                        if let Some(f) = walk(items, req) {
                            return Some(f);
                        }
                    }
                }
                _ => {}
            }
        }
        None
    }
    let it = match walk(&file.items, req) {
        Some(i) => i.clone(),
        None => {
            out.error = Some(format!("type not found: {}", req.name));
            return out;
        }
    };
    let mut rw = Rw {
        opts,
        uc,
        consts,
        rules: BTreeMap::new(),
        events: vec![],
        errors: vec![],
        counters: BTreeMap::new(),
        self_free: false,
    };
    match it {
        syn::Item::Struct(mut s) => {
            out.line_start = s.struct_token.span.start().line;
            out.line_end = match &s.fields {
                syn::Fields::Named(n) => n.brace_token.span.close().end().line,
                syn::Fields::Unnamed(n) => n.paren_token.span.close().end().line,
                syn::Fields::Unit => out.line_start,
            };
            s.attrs = filter_derives(&s.attrs, &keep);
            s.vis = parse_quote!(pub);
            if let Some(r) = &opts.rename {
                s.ident = syn::Ident::new(r, Span::call_site());
            }
            match &mut s.fields {
                syn::Fields::Named(n) => {
                    let fields: Vec<syn::Field> = n
                        .named
                        .iter()
                        .filter(|f| {
                            let nm = f.ident.as_ref().unwrap().to_string();
                            let drop = opts.drop_fields.contains(&nm);
                            drop == false
                        })
                        .cloned()
                        .collect();
                    let dropped = n.named.len() - fields.len();
                    for _ in 0..dropped {
                        rw.fire("R-TY.drop_field");
                    }
                    n.named = fields.into_iter().collect();
                    for f in n.named.iter_mut() {
                        f.attrs.clear();
                        f.vis = parse_quote!(pub);
                        rw.visit_type_mut(&mut f.ty);
                    }
                }
                syn::Fields::Unnamed(n) => {
                    for f in n.unnamed.iter_mut() {
                        f.attrs.clear();
                        f.vis = parse_quote!(pub);
                        rw.visit_type_mut(&mut f.ty);
                    }
                }
                _ => {}
            }
            out.text = quote!(#s).to_string();
            if opts.extra.contains_key("gen_cols_spec") {
                // mechanical spec: every column of a HistoryVec has length n
                if let syn::Fields::Named(n) = &s.fields {
                    let nm = &s.ident;
                    let fname = syn::Ident::new(&format!("{}_cols", nm), Span::call_site());
                    let fs: Vec<&syn::Ident> = n.named.iter().map(|f| f.ident.as_ref().unwrap()).collect();
                    let spec = quote!(pub open spec fn #fname(h: #nm, n: int) -> bool { true #(&& h.#fs.len() == n)* });
                    out.text.push_str("\n// ===VXEXTRA===\n");
                    out.text.push_str(&spec.to_string());
                }
            }
        }
        syn::Item::Enum(mut s) => {
            out.line_start = s.enum_token.span.start().line;
            out.line_end = s.brace_token.span.close().end().line;
            s.attrs = filter_derives(&s.attrs, &keep);
            s.vis = parse_quote!(pub);
            for v in s.variants.iter_mut() {
                v.attrs.clear();
                for f in v.fields.iter_mut() {
                    f.attrs.clear();
                    rw.visit_type_mut(&mut f.ty);
                }
            }
            out.text = quote!(#s).to_string();
        }
        _ => {}
    }
    out.rules = rw.rules;
    if !rw.errors.is_empty() {
        out.error = Some(rw.errors.join("; "));
    }
    out.ok = out.error.is_none();
    out
}

fn process_alias(req: &ItemReq, opts: &Opts, file: &syn::File, uc: &BTreeMap<String, String>, consts: &BTreeMap<String, Expr>) -> ItemOut {
    let mut out = ItemOut { id: req.id.clone(), file: req.file.clone(), ..Default::default() };
    for it in &file.items {
        if let syn::Item::Type(t) = it {
            if t.ident == req.name {
                let mut t2 = t.clone();
                t2.attrs.clear();
                t2.vis = parse_quote!(pub);
                let mut rw = Rw { opts, uc, consts, rules: BTreeMap::new(), events: vec![], errors: vec![], counters: BTreeMap::new(), self_free: false };
                rw.visit_type_mut(&mut t2.ty);
                out.line_start = t.type_token.span.start().line;
                out.line_end = t.semi_token.span.end().line;
                out.rules = rw.rules;
                out.text = quote!(#t2).to_string();
                out.ok = true;
                return out;
            }
        }
    }
    out.error = Some(format!("type alias not found: {}", req.name));
    out
}

/// the struct as written, keeping only derive(HistoryMethods|HistoryVec) and #[has_state]:
/// input for the real proc macros (R-DERIVE)
fn process_struct_raw(req: &ItemReq, file: &syn::File) -> ItemOut {
    let mut out = ItemOut { id: req.id.clone(), file: req.file.clone(), ..Default::default() };
    fn walk<'f>(items: &'f [syn::Item], name: &str) -> Option<&'f syn::ItemStruct> {
        for it in items {
            match it {
                syn::Item::Struct(s) if s.ident == name => return Some(s),
                syn::Item::Mod(m) => {
                    if let Some((_, items)) = &m.content {
                        if let Some(f) = walk(items, name) {
                            return Some(f);
                        }
                    }
                }
                _ => {}
            }
        }
        None
    }
    match walk(&file.items, &req.name) {
        None => out.error = Some(format!("struct not found: {}", req.name)),
        Some(s0) => {
            let mut s = s0.clone();
            out.line_start = s.struct_token.span.start().line;
            s.attrs = filter_derives(&s.attrs, &["HistoryMethods".to_string(), "HistoryVec".to_string()]);
            s.vis = parse_quote!(pub);
            if let syn::Fields::Named(n) = &mut s.fields {
                out.line_end = n.brace_token.span.close().end().line;
                for f in n.named.iter_mut() {
                    f.attrs.retain(|a| a.path().is_ident("has_state"));
                    f.vis = parse_quote!(pub);
                }
            }
            out.text = quote!(#s).to_string();
            out.ok = true;
        }
    }
    out
}

fn main() {
    let args: Vec<String> = std::env::args().collect();
    if args.len() < 2 {
        eprintln!("usage: vx plan.json");
        std::process::exit(2);
    }
    let plan: Plan = serde_json::from_str(&std::fs::read_to_string(&args[1]).expect("read plan")).expect("parse plan");
    let uc = match &plan.uc_file {
        Some(f) => parse_uc(&std::fs::read_to_string(format!("{}/{}", plan.src_root, f)).unwrap_or_default()),
        None => BTreeMap::new(),
    };
    let mut cache: BTreeMap<String, Result<syn::File, String>> = BTreeMap::new();
    let mut outs = vec![];
    for req in &plan.items {
        let path = if req.file.starts_with('/') { req.file.clone() } else { format!("{}/{}", plan.src_root, req.file) };
        let parsed = cache.entry(path.clone()).or_insert_with(|| {
            let src = std::fs::read_to_string(&path).map_err(|e| format!("{}: {}", path, e))?;
            // `#[ext] pub impl X {..}` is not an item syn accepts; the visibility is dropped (same line count)
            let src = src.replace("\npub impl ", "\nimpl ");
            syn::parse_file(&src).map_err(|e| format!("{}: parse error: {}", path, e))
        });
        let opts = merge(&plan.global, &req.opts);
        let o = match parsed {
            Err(e) => ItemOut { id: req.id.clone(), file: req.file.clone(), error: Some(e.clone()), ..Default::default() },
            Ok(file) => {
                let consts = collect_consts(file);
                match req.kind.as_str() {
                    "fn" | "method" | "traitfn" => process_fn(req, &opts, file, &uc, &consts),
                    "struct" | "enum" => process_type(req, &opts, file, &uc, &consts),
                    "struct_raw" => process_struct_raw(req, file),
                    "type" => process_alias(req, &opts, file, &uc, &consts),
                    k => ItemOut { id: req.id.clone(), error: Some(format!("unknown kind {}", k)), ..Default::default() },
                }
            }
        };
        outs.push(o);
    }
    println!("{}", serde_json::to_string_pretty(&outs).unwrap());
}
