//! R-ITER: desugaring of a closed list of iterator idioms into index loops.
//! Every generated loop carries a `vx_loop!("iter:<op>#n", "<len expr>")` marker
//! so that the contract file can attach invariants to it; the closure body is
//! inlined verbatim with its parameter bound by `let`.

use crate::{ts_str, Rw};
use proc_macro2::Span;
use quote::{format_ident, quote};
use syn::visit_mut::{self, VisitMut};
use syn::{parse_quote, Expr, Pat, Stmt};

#[derive(Clone)]
pub enum Src {
    Iter(Expr),
    IterMut(Expr),
    Copied(Box<Src>),
    Enumerate(Box<Src>),
    Zip(Box<Src>, Box<Src>),
    Windows2(Expr),
    Map(Box<Src>, syn::ExprClosure),
    Skip(Box<Src>, Expr),
    /// `v.drain(..)`: every element by value, `v` is empty afterwards
    Drain(Expr),
    /// `for x in owner.field` (an owned Vec field, consumed): every element by value, in index order; the element is
    /// read out through `vx_take` (group-local trusted glue: `r == v[i]`), the Vec is not used afterwards
    Owned(Expr),
}

pub fn is_iter_chain(e: &Expr) -> bool {
    if parse_src(e).is_some() {
        return true;
    }
    // anything that textually goes through an iterator adaptor is NOT an Option receiver
    let t = ts_str(e);
    t.contains(".iter()") || t.contains(".iter_mut()") || t.contains(".zip(") || t.contains(".windows(") || t.contains(".into_iter()") || t.contains(".enumerate()")
}

fn has_skip(s: &Src) -> bool {
    match s {
        Src::Skip(..) => true,
        Src::Copied(a) | Src::Enumerate(a) | Src::Map(a, _) => has_skip(a),
        Src::Zip(a, b) => has_skip(a) || has_skip(b),
        _ => false,
    }
}

fn strip_paren(e: &Expr) -> &Expr {
    match e {
        Expr::Paren(p) => strip_paren(&p.expr),
        Expr::Group(g) => strip_paren(&g.expr),
        _ => e,
    }
}

pub fn parse_src(e: &Expr) -> Option<Src> {
    let e = strip_paren(e);
    match e {
        Expr::MethodCall(mc) => {
            let m = mc.method.to_string();
            match (m.as_str(), mc.args.len()) {
                ("iter", 0) => {
                    // R-ITER.slice_from: `X[a..].iter()` is `X.iter().skip(a)` preceded by the bounds check of the
                    // slicing (`a <= X.len()`, emitted as a call of `slice_from_check`, a proof obligation)
                    if let Expr::Index(ix) = strip_paren(&mc.receiver) {
                        if let Expr::Range(r) = strip_paren(&ix.index) {
                            if let (Some(a), None, syn::RangeLimits::HalfOpen(_)) = (&r.start, &r.end, &r.limits) {
                                let base = &ix.expr;
                                return Some(Src::Skip(Box::new(Src::Iter((**base).clone())), parse_quote!(slice_from_check(#a, #base.len()))));
                            }
                            // any other range form is left as it is (the verifier's own slice-range indexing applies)
                        }
                    }
                    Some(Src::Iter((*mc.receiver).clone()))
                }
                // R-ITER.into_iter: consuming iteration over an owned Vec named by a path: items are read out by value
                // in index order (the element type must be Copy in the verified text; the Vec is not used afterwards)
                ("into_iter", 0) if matches!(strip_paren(&mc.receiver), Expr::Path(_)) => {
                    Some(Src::Copied(Box::new(Src::Iter((*mc.receiver).clone()))))
                }

                ("iter_mut", 0) => Some(Src::IterMut((*mc.receiver).clone())),
                ("copied", 0) | ("cloned", 0) => Some(Src::Copied(Box::new(parse_src(&mc.receiver)?))),
                ("enumerate", 0) => {
                    // `skip(k).enumerate()` restarts the count at 0: not index-aligned, not supported
                    let inner = parse_src(&mc.receiver)?;
                    if has_skip(&inner) {
                        return None;
                    }
                    Some(Src::Enumerate(Box::new(inner)))
                }
                ("zip", 1) => {
                    let a = parse_src(&mc.receiver)?;
                    let arg = strip_paren(&mc.args[0]);
                    let b = match parse_src(arg) {
                        Some(b) => b,
                        None => match arg {
                            // IntoIterator for &Vec / &mut Vec / Vec (by value: items are copied out)
                            Expr::Reference(r) if r.mutability.is_none() => Src::Iter((*r.expr).clone()),
                            Expr::Reference(r) => Src::IterMut((*r.expr).clone()),
                            Expr::Path(_) | Expr::Field(_) => Src::Copied(Box::new(Src::Iter(arg.clone()))),
                            _ => return None,
                        },
                    };
                    // a skipped side would pair item i+k with item i: not index-aligned, not supported
                    if has_skip(&a) || has_skip(&b) {
                        return None;
                    }
                    Some(Src::Zip(Box::new(a), Box::new(b)))
                }
                ("skip", 1) => {
                    let inner = parse_src(&mc.receiver)?;
                    if has_skip(&inner) {
                        return None;
                    }
                    Some(Src::Skip(Box::new(inner), mc.args[0].clone()))
                }
                ("windows", 1) => {
                    if ts_str(&mc.args[0]) == "2" {
                        Some(Src::Windows2((*mc.receiver).clone()))
                    } else {
                        None
                    }
                }
                ("map", 1) => {
                    if let Expr::Closure(cl) = &mc.args[0] {
                        let inner = parse_src(&mc.receiver)?;
                        Some(Src::Map(Box::new(inner), cl.clone()))
                    } else {
                        None
                    }
                }
                _ => None,
            }
        }
        _ => None,
    }
}

/// for-loop sources additionally accept `&R` and `&mut R`
fn parse_for_src(rw: &Rw, e: &Expr) -> Option<Src> {
    let e = strip_paren(e);
    // configured slice getters: `for p in x.getter()` iterates the returned slice
    if let Expr::MethodCall(mc) = e {
        if mc.args.is_empty() {
            if let Some(list) = rw.opts.extra.get("slice_getters") {
                if list.split(',').any(|g| mc.method == g.trim()) {
                    return Some(Src::Iter(e.clone()));
                }
            }
        }
    }
    if let Some(s) = parse_src(e) {
        return Some(s);
    }
    // configured slice-typed locals / parameters: `for x in name` iterates `name` by reference
    if let Expr::Path(pp) = e {
        if let Some(list) = rw.opts.extra.get("for_slices") {
            if list.split(',').any(|g| pp.path.is_ident(g.trim())) {
                return Some(Src::Iter(e.clone()));
            }
        }
    }
    // R-ITER.into_iter.owned: `for x in owner.field` consumes an owned Vec field
    if let Expr::Field(_) = e {
        return Some(Src::Owned(e.clone()));
    }
    if let Expr::Reference(r) = e {
        if r.mutability.is_some() {
            return Some(Src::IterMut((*r.expr).clone()));
        } else {
            return Some(Src::Iter((*r.expr).clone()));
        }
    }
    None
}

struct WinSub {
    w: String,
    base: Expr,
    idx: syn::Ident,
}
impl VisitMut for WinSub {
    fn visit_expr_mut(&mut self, e: &mut Expr) {
        visit_mut::visit_expr_mut(self, e);
        if let Expr::Index(ix) = e {
            if let Expr::Path(p) = &*ix.expr {
                if p.path.is_ident(&self.w) {
                    let k = ts_str(&ix.index);
                    let base = &self.base;
                    let idx = &self.idx;
                    if k == "0" {
                        *e = parse_quote!(#base[#idx]);
                    } else if k == "1" {
                        *e = parse_quote!(#base[#idx + 1]);
                    }
                }
            }
        }
    }
}

fn conds(s: &Src, idx: &syn::Ident, out: &mut Vec<Expr>) {
    match s {
        Src::Iter(r) | Src::IterMut(r) | Src::Drain(r) | Src::Owned(r) => out.push(parse_quote!(#idx < #r.len())),
        Src::Windows2(r) => out.push(parse_quote!(#idx + 1 < #r.len())),
        Src::Copied(a) | Src::Enumerate(a) | Src::Map(a, _) | Src::Skip(a, _) => conds(a, idx, out),
        Src::Zip(a, b) => {
            conds(a, idx, out);
            conds(b, idx, out);
        }
    }
}

fn len_text(s: &Src) -> String {
    match s {
        Src::Iter(r) | Src::IterMut(r) | Src::Windows2(r) | Src::Drain(r) | Src::Owned(r) => {
            let t = quote!(#r).to_string();
            t.replace(" . ", ".").replace(" [", "[").replace("[ ", "[").replace(" ]", "]").replace("& ", "&")
        }
        Src::Copied(a) | Src::Enumerate(a) | Src::Map(a, _) | Src::Skip(a, _) => len_text(a),
        Src::Zip(a, _) => len_text(a),
    }
}

fn start_of(s: &Src) -> Option<Expr> {
    match s {
        Src::Skip(_, k) => Some(k.clone()),
        Src::Copied(a) | Src::Enumerate(a) | Src::Map(a, _) => start_of(a),
        _ => None,
    }
}

/// bind pattern `pat` to value; destructure tuples / references syntactically
fn bind(pat: &Pat, val: &Expr, out: &mut Vec<Stmt>) {
    match (pat, strip_paren(val)) {
        (Pat::Tuple(pt), Expr::Tuple(et)) if pt.elems.len() == et.elems.len() => {
            for (p, v) in pt.elems.iter().zip(et.elems.iter()) {
                bind(p, v, out);
            }
        }
        (Pat::Reference(pr), Expr::Reference(er)) if pr.mutability.is_none() && er.mutability.is_none() => {
            bind(&pr.pat, &er.expr, out);
        }
        (Pat::Paren(pp), _) => bind(&pp.pat, val, out),
        (Pat::Wild(_), _) => {}
        (Pat::Type(pt), _) => bind(&pt.pat, val, out),
        _ => out.push(parse_quote!(let #pat = #val;)),
    }
}

/// value of the item at index `idx`; statements needed before it
fn item(rw: &mut Rw, s: &Src, idx: &syn::Ident, stmts: &mut Vec<Stmt>) -> Result<Expr, String> {
    Ok(match s {
        Src::Iter(r) => parse_quote!(&#r[#idx]),
        Src::IterMut(r) => parse_quote!(&mut #r[#idx]),
        Src::Drain(r) => parse_quote!(#r[#idx]),
        Src::Owned(r) => parse_quote!(vx_take(&#r, #idx)),
        Src::Copied(a) => {
            let v = item(rw, a, idx, stmts)?;
            match strip_paren(&v) {
                Expr::Reference(r) => (*r.expr).clone(),
                _ => parse_quote!(*(#v)),
            }
        }
        Src::Enumerate(a) => {
            let v = item(rw, a, idx, stmts)?;
            parse_quote!((#idx, #v))
        }
        Src::Skip(a, _) => item(rw, a, idx, stmts)?,
        Src::Zip(a, b) => {
            let va = item(rw, a, idx, stmts)?;
            let vb = item(rw, b, idx, stmts)?;
            parse_quote!((#va, #vb))
        }
        Src::Windows2(_) => return Err("windows(2) item used outside a closure".into()),
        Src::Map(a, cl) => {
            if cl.inputs.len() != 1 {
                return Err("map closure must have one parameter".into());
            }
            let body = closure_apply(rw, a, cl, idx, stmts)?;
            body
        }
    })
}

/// bind closure parameter to the item of `s` and return the closure body
fn closure_apply(rw: &mut Rw, s: &Src, cl: &syn::ExprClosure, idx: &syn::Ident, stmts: &mut Vec<Stmt>) -> Result<Expr, String> {
    let pat = cl.inputs.last().ok_or("closure without parameter")?.clone();
    let mut body = (*cl.body).clone();
    if let Src::Windows2(r) = s {
        let w = match &pat {
            Pat::Ident(i) => i.ident.to_string(),
            _ => return Err("windows closure parameter must be an identifier".into()),
        };
        WinSub { w, base: r.clone(), idx: idx.clone() }.visit_expr_mut(&mut body);
        return Ok(body);
    }
    let v = item(rw, s, idx, stmts)?;
    bind(&pat, &v, stmts);
    Ok(body)
}

fn after_marker(key: &str) -> Stmt {
    let k = syn::LitStr::new(&format!("after {}", key), Span::call_site());
    parse_quote!(vx_at!(#k);)
}

fn marker(rw: &mut Rw, op: &str, s: &Src) -> (Stmt, usize, Stmt) {
    let n = rw.next(&format!("iter:{}", op));
    let key = format!("iter:{}#{}", op, n);
    let lt = len_text(s);
    rw.events.push(format!("loop {}", key));
    let k = syn::LitStr::new(&key, Span::call_site());
    let l = syn::LitStr::new(&lt, Span::call_site());
    let v = rw.next("iter:var");
    let ivs = if matches_windows(s) { format!("w:__i{}", v) } else { format!("__i{}", v) };
    let iv = syn::LitStr::new(&ivs, Span::call_site());
    rw.events.push(format!("after {}", key));
    (parse_quote!(vx_loop!(#k, #l, #iv);), v, after_marker(&key))
}

fn matches_windows(s: &Src) -> bool {
    match s {
        Src::Windows2(_) => true,
        Src::Copied(a) | Src::Enumerate(a) | Src::Map(a, _) | Src::Skip(a, _) => matches_windows(a),
        Src::Zip(a, b) => matches_windows(a) || matches_windows(b),
        _ => false,
    }
}

fn and_all(cs: Vec<Expr>) -> Expr {
    let mut it = cs.into_iter();
    let mut e = it.next().unwrap();
    for c in it {
        e = parse_quote!(#e && #c);
    }
    e
}

struct HasContinue(bool);
impl VisitMut for HasContinue {
    fn visit_expr_mut(&mut self, e: &mut Expr) {
        match e {
            Expr::Continue(_) => self.0 = true,
            Expr::Closure(_) | Expr::While(_) | Expr::ForLoop(_) | Expr::Loop(_) => {}
            _ => visit_mut::visit_expr_mut(self, e),
        }
    }
}

/// R-CONTINUE.guard: a top-level `if C { continue; }` of a `for` body (no else branch, nothing else in the block)
/// becomes `if !(C) { <the rest of the body> }` - the same control flow, and the index increment that follows the
/// body in the desugared loop is no longer skipped. Any other `continue` is left alone (and rejected by the caller).
fn guard_continue(stmts: Vec<Stmt>, fired: &mut bool) -> Vec<Stmt> {
    for (i, st) in stmts.iter().enumerate() {
        if let Stmt::Expr(Expr::If(ifx), _) = st {
            if ifx.else_branch.is_some() {
                continue;
            }
            let real: Vec<&Stmt> = ifx
                .then_branch
                .stmts
                .iter()
                .filter(|s| !matches!(s, Stmt::Macro(m) if m.mac.path.is_ident("vx_at")))
                .collect();
            let only_continue = real.len() == 1
                && matches!(real[0], Stmt::Expr(Expr::Continue(c), _) if c.label.is_none());
            if only_continue {
                let cond = &ifx.cond;
                let rest = guard_continue(stmts[i + 1..].to_vec(), fired);
                let mut out: Vec<Stmt> = stmts[..i].to_vec();
                out.push(parse_quote!(if !(#cond) { #(#rest)* }));
                *fired = true;
                return out;
            }
        }
    }
    stmts
}

struct TryToBreak {
    err: syn::Ident,
    bad: bool,
}
impl VisitMut for TryToBreak {
    fn visit_expr_mut(&mut self, e: &mut Expr) {
        match e {
            Expr::Closure(_) | Expr::While(_) | Expr::ForLoop(_) | Expr::Loop(_) => {
                let t = ts_str(e);
                if t.contains('?') || t.contains("return") {
                    self.bad = true;
                }
            }
            Expr::Return(_) => self.bad = true,
            Expr::Try(t) => {
                let mut inner = (*t.expr).clone();
                self.visit_expr_mut(&mut inner);
                let err = &self.err;
                *e = parse_quote!(match #inner { Ok(__t) => __t, Err(__e) => { #err = Some(__e); break; } });
            }
            _ => visit_mut::visit_expr_mut(self, e),
        }
    }
}

pub fn desugar(rw: &mut Rw, e: &Expr) -> Option<Expr> {
    match e {
        Expr::MethodCall(mc) => {
            let m = mc.method.to_string();
            match m.as_str() {
                // R-HASHMAP.find_eq: `M.iter().find(|&p| p.0 == &K)` on a map is a look-up by key; ONLY this exact closure
                // shape is rewritten (to `M.find_by_key(&K)`, a stub specified over the abstract map); any other predicate is
                // left alone and is then outside the supported subset (exit 2)
                "find" if mc.args.len() == 1 && rw.opts.extra.contains_key("hashmap_find_eq") => {
                    if let (Expr::MethodCall(it), Expr::Closure(cl)) = (&*mc.receiver, &mc.args[0]) {
                        if it.method == "iter" && it.args.is_empty() && cl.inputs.len() == 1 {
                            let pname = match &cl.inputs[0] {
                                Pat::Reference(r) => match &*r.pat { Pat::Ident(i) => Some(i.ident.to_string()), _ => None },
                                Pat::Ident(i) => Some(i.ident.to_string()),
                                _ => None,
                            };
                            if let (Some(pn), Expr::Binary(b)) = (pname, strip_paren(&cl.body)) {
                                if matches!(b.op, syn::BinOp::Eq(_)) {
                                    let is_key = |x: &Expr| ts_str(x) == format!("{}.0", pn);
                                    let other = if is_key(&b.left) { Some(&b.right) } else if is_key(&b.right) { Some(&b.left) } else { None };
                                    if let Some(Expr::Reference(k)) = other.map(|o| strip_paren(o)) {
                                        let recv = &it.receiver;
                                        let key = &k.expr;
                                        rw.fire("R-HASHMAP.find_eq");
                                        return Some(parse_quote!(#recv.find_by_key(&#key)));
                                    }
                                }
                            }
                        }
                    }
                    return None;
                }
                "all" | "any" | "position" if mc.args.len() == 1 => {
                    let cl = match &mc.args[0] {
                        Expr::Closure(c) => c.clone(),
                        _ => return None,
                    };
                    let s = parse_src(&mc.receiver)?;
                    if m == "position" && has_skip(&s) {
                        // position() counts from the first item AFTER the skip: not the slice index
                        return None;
                    }
                    let (mk, v, amk) = marker(rw, &m, &s);
                    let idx = format_ident!("__i{}", v);
                    let r = format_ident!("__r{}", v);
                    let mut cs = vec![];
                    conds(&s, &idx, &mut cs);
                    let cond = and_all(cs);
                    let mut binds = vec![];
                    let body = match closure_apply(rw, &s, &cl, &idx, &mut binds) {
                        Ok(b) => b,
                        Err(e) => {
                            rw.err(format!("R-ITER {}: {}", m, e));
                            return None;
                        }
                    };
                    let start: Expr = start_of(&s).unwrap_or_else(|| parse_quote!(0));
                    rw.fire(&format!("R-ITER.{}", m));
                    let ne: Expr = match m.as_str() {
                        "all" => parse_quote!({
                            let mut #r: bool = true;
                            let mut #idx: usize = #start;
                            while #cond {
                                #mk
                                #(#binds)*
                                if !(#body) { #r = false; break; }
                                #idx = #idx + 1;
                            }
                            #amk
                            #r
                        }),
                        "any" => parse_quote!({
                            let mut #r: bool = false;
                            let mut #idx: usize = #start;
                            while #cond {
                                #mk
                                #(#binds)*
                                if #body { #r = true; break; }
                                #idx = #idx + 1;
                            }
                            #amk
                            #r
                        }),
                        _ => parse_quote!({
                            let mut #r: Option<usize> = None;
                            let mut #idx: usize = #start;
                            while #cond {
                                #mk
                                #(#binds)*
                                if #body { #r = Some(#idx); break; }
                                #idx = #idx + 1;
                            }
                            #amk
                            #r
                        }),
                    };
                    Some(ne)
                }
                "sum" if mc.args.is_empty() => {
                    let s = parse_src(&mc.receiver)?;
                    let (mk, v, amk) = marker(rw, "sum", &s);
                    let start: Expr = start_of(&s).unwrap_or_else(|| parse_quote!(0));
                    let idx = format_ident!("__i{}", v);
                    let acc = format_ident!("__acc{}", v);
                    let mut cs = vec![];
                    conds(&s, &idx, &mut cs);
                    let cond = and_all(cs);
                    let mut binds = vec![];
                    let val = match item(rw, &s, &idx, &mut binds) {
                        Ok(b) => b,
                        Err(e) => {
                            rw.err(format!("R-ITER sum: {}", e));
                            return None;
                        }
                    };
                    // plain `.iter().sum()` yields `&R[i]`: take the value
                    let val: Expr = match strip_paren(&val) {
                        Expr::Reference(r) => (*r.expr).clone(),
                        o => o.clone(),
                    };
                    rw.fire("R-ITER.sum");
                    Some(parse_quote!({
                        let mut #acc: Q = Q::zero();
                        let mut #idx: usize = #start;
                        while #cond {
                            #mk
                            #(#binds)*
                            #acc = #acc + (#val);
                            #idx = #idx + 1;
                        }
                        #amk
                        #acc
                    }))
                }
                "fold" if mc.args.len() == 2 => {
                    let cl = match &mc.args[1] {
                        Expr::Closure(c) => c.clone(),
                        _ => return None,
                    };
                    if cl.inputs.len() != 2 {
                        return None;
                    }
                    let s = parse_src(&mc.receiver)?;
                    let init = mc.args[0].clone();
                    let (mk, v, amk) = marker(rw, "fold", &s);
                    let start: Expr = start_of(&s).unwrap_or_else(|| parse_quote!(0));
                    let idx = format_ident!("__i{}", v);
                    let acc = format_ident!("__acc{}", v);
                    let mut cs = vec![];
                    conds(&s, &idx, &mut cs);
                    let cond = and_all(cs);
                    let mut binds = vec![];
                    let accpat = cl.inputs[0].clone();
                    let body = match closure_apply(rw, &s, &cl, &idx, &mut binds) {
                        Ok(b) => b,
                        Err(e) => {
                            rw.err(format!("R-ITER fold: {}", e));
                            return None;
                        }
                    };
                    rw.fire("R-ITER.fold");
                    Some(parse_quote!({
                        let mut #acc = #init;
                        let mut #idx: usize = #start;
                        while #cond {
                            #mk
                            let #accpat = #acc;
                            #(#binds)*
                            #acc = #body;
                            #idx = #idx + 1;
                        }
                        #amk
                        #acc
                    }))
                }
                "try_fold" if mc.args.len() == 2 => {
                    // R-ITER.try_fold: the closure returns Result; `?` inside it leaves the CLOSURE, so every `?`
                    // of the inlined body becomes "record the error and break"; the block's value is the Result
                    let cl = match &mc.args[1] {
                        Expr::Closure(c) => c.clone(),
                        _ => return None,
                    };
                    if cl.inputs.len() != 2 {
                        return None;
                    }
                    let s = parse_src(&mc.receiver)?;
                    let init = mc.args[0].clone();
                    let (mk, v, amk) = marker(rw, "try_fold", &s);
                    let start: Expr = start_of(&s).unwrap_or_else(|| parse_quote!(0));
                    let idx = format_ident!("__i{}", v);
                    let acc = format_ident!("__acc{}", v);
                    let err = format_ident!("__err{}", v);
                    let mut cs = vec![];
                    conds(&s, &idx, &mut cs);
                    let cond = and_all(cs);
                    let mut binds = vec![];
                    let accpat = cl.inputs[0].clone();
                    let mut body = match closure_apply(rw, &s, &cl, &idx, &mut binds) {
                        Ok(b) => b,
                        Err(e) => {
                            rw.err(format!("R-ITER try_fold: {}", e));
                            return None;
                        }
                    };
                    let mut tb = TryToBreak { err: err.clone(), bad: false };
                    tb.visit_expr_mut(&mut body);
                    if tb.bad {
                        rw.err("R-ITER try_fold: `?` / return inside a nested loop or closure of the closure body".into());
                        return None;
                    }
                    rw.fire("R-ITER.try_fold");
                    Some(parse_quote!({
                        let mut #acc = #init;
                        let mut #err: Option<VErr> = None;
                        let mut #idx: usize = #start;
                        while #cond {
                            #mk
                            let #accpat = #acc;
                            #(#binds)*
                            match #body {
                                Ok(__v) => { #acc = __v; }
                                Err(__e) => { #err = Some(__e); break; }
                            }
                            #idx = #idx + 1;
                        }
                        #amk
                        match #err { Some(__e) => Err(__e), None => Ok(#acc) }
                    }))
                }
                "collect" if mc.args.is_empty() => {
                    let s = parse_src(&mc.receiver)?;
                    if !matches!(s, Src::Map(..)) {
                        return None;
                    }
                    let (mk, v, amk) = marker(rw, "collect", &s);
                    let start: Expr = start_of(&s).unwrap_or_else(|| parse_quote!(0));
                    let idx = format_ident!("__i{}", v);
                    let acc = format_ident!("__v{}", v);
                    let mut cs = vec![];
                    conds(&s, &idx, &mut cs);
                    let cond = and_all(cs);
                    let mut binds = vec![];
                    let val = match item(rw, &s, &idx, &mut binds) {
                        Ok(b) => b,
                        Err(e) => {
                            rw.err(format!("R-ITER collect: {}", e));
                            return None;
                        }
                    };
                    rw.fire("R-ITER.collect");
                    let decl: Stmt = match rw.opts.extra.get("collect_elem").and_then(|t| syn::parse_str::<syn::Type>(t).ok()) {
                        Some(t) => parse_quote!(let mut #acc: Vec<#t> = Vec::new();),
                        None => parse_quote!(let mut #acc = Vec::new();),
                    };
                    Some(parse_quote!({
                        #decl
                        let mut #idx: usize = #start;
                        while #cond {
                            #mk
                            #(#binds)*
                            #acc.push(#val);
                            #idx = #idx + 1;
                        }
                        #amk
                        #acc
                    }))
                }
                "for_each" if mc.args.len() == 1 => {
                    let cl = match &mc.args[0] {
                        Expr::Closure(c) => c.clone(),
                        _ => return None,
                    };
                    // R-ITER.drain: `v.drain(..).for_each(f)` (full range, for_each only): f on every element by value in
                    // index order, then `v.clear()`
                    let mut drained: Option<Expr> = None;
                    if let Expr::MethodCall(d) = strip_paren(&mc.receiver) {
                        if d.method == "drain" && d.args.len() == 1 && ts_str(&d.args[0]).replace(' ', "") == ".." {
                            drained = Some((*d.receiver).clone());
                        }
                    }
                    let s = match &drained {
                        Some(v) => Src::Drain(v.clone()),
                        None => parse_src(&mc.receiver)?,
                    };
                    let clear: Vec<Stmt> = match &drained {
                        Some(v) => vec![parse_quote!(#v.clear();)],
                        None => vec![],
                    };
                    let (mk, v, amk) = marker(rw, "for_each", &s);
                    let start: Expr = start_of(&s).unwrap_or_else(|| parse_quote!(0));
                    let idx = format_ident!("__i{}", v);
                    let mut cs = vec![];
                    conds(&s, &idx, &mut cs);
                    let cond = and_all(cs);
                    let mut binds = vec![];
                    let body = match closure_apply(rw, &s, &cl, &idx, &mut binds) {
                        Ok(b) => b,
                        Err(e) => {
                            rw.err(format!("R-ITER for_each: {}", e));
                            return None;
                        }
                    };
                    rw.fire("R-ITER.for_each");
                    // anchor for proof hints after the inlined closure body
                    let ek_s = format!("endbody iter:for_each#{}", rw.counters.get("iter:for_each").cloned().unwrap_or(0));
                    rw.events.push(ek_s.clone());
                    let ek = syn::LitStr::new(&ek_s, Span::call_site());
                    Some(parse_quote!({
                        let mut #idx: usize = #start;
                        while #cond {
                            #mk
                            #(#binds)*
                            #body;
                            vx_at!(#ek);
                            #idx = #idx + 1;
                        }
                    #(#clear)*
                    #amk
                    }))
                }
                _ => None,
            }
        }
        Expr::ForLoop(fl) if matches!(strip_paren(&fl.expr), Expr::Array(_)) => {
            // `for PAT in [e1, e2, ..] { body }`: unrolled (body must not break / continue)
            let arr = match strip_paren(&fl.expr) {
                Expr::Array(a) => a.clone(),
                _ => return None,
            };
            let mut hc = HasContinue(false);
            let mut b = fl.body.clone();
            hc.visit_block_mut(&mut b);
            struct HasBreak(bool);
            impl VisitMut for HasBreak {
                fn visit_expr_mut(&mut self, e: &mut Expr) {
                    match e {
                        Expr::Break(_) => self.0 = true,
                        Expr::Closure(_) | Expr::While(_) | Expr::ForLoop(_) | Expr::Loop(_) => {}
                        _ => visit_mut::visit_expr_mut(self, e),
                    }
                }
            }
            let mut hb = HasBreak(false);
            hb.visit_block_mut(&mut b);
            if hc.0 || hb.0 {
                rw.err("R-ITER for-array: body contains break/continue".into());
                return None;
            }
            let mut body_stmts = fl.body.stmts.clone();
            if let Some(Stmt::Macro(m)) = body_stmts.first() {
                if m.mac.path.is_ident("vx_loop") {
                    body_stmts.remove(0);
                }
            }
            let mut blocks: Vec<Stmt> = vec![];
            for el in arr.elems.iter() {
                let mut binds = vec![];
                bind(&fl.pat, el, &mut binds);
                blocks.push(parse_quote!({ #(#binds)* #(#body_stmts)* }));
            }
            rw.fire("R-ITER.for_array_unroll");
            Some(parse_quote!({ #(#blocks)* }))
        }
        Expr::ForLoop(fl) => {
            let s = parse_for_src(rw, &fl.expr)?;
            // body must not `continue` (the index increment would be skipped), except in the guard form
            // `if C { continue; }` at the top level of the body, which is rewritten (R-CONTINUE.guard)
            let mut fired = false;
            let guarded = guard_continue(fl.body.stmts.clone(), &mut fired);
            if fired {
                rw.fire("R-CONTINUE.guard");
            }
            let mut hc = HasContinue(false);
            let mut b = fl.body.clone();
            b.stmts = guarded.clone();
            hc.visit_block_mut(&mut b);
            if hc.0 {
                rw.err("R-ITER for: body contains `continue`".into());
                return None;
            }
            // reuse the native loop marker key (for#n) if present as first stmt
            let mut body_stmts = guarded;
            let mut key = None;
            if let Some(Stmt::Macro(m)) = body_stmts.first() {
                if m.mac.path.is_ident("vx_loop") {
                    if let Ok(l) = m.mac.parse_body::<syn::LitStr>() {
                        key = Some(l.value());
                    }
                    body_stmts.remove(0);
                }
            }
            let v = rw.next("iter:var");
            let key = key.unwrap_or_else(|| format!("iter:for#{}", v));
            let lt = len_text(&s);
            let k = syn::LitStr::new(&key, Span::call_site());
            let l = syn::LitStr::new(&lt, Span::call_site());
            let iv = syn::LitStr::new(&format!("__i{}", v), Span::call_site());
            let mk: Stmt = parse_quote!(vx_loop!(#k, #l, #iv););
            let idx = format_ident!("__i{}", v);
            let mut cs = vec![];
            conds(&s, &idx, &mut cs);
            let cond = and_all(cs);
            let mut binds = vec![];
            let val = match item(rw, &s, &idx, &mut binds) {
                Ok(b) => b,
                Err(e) => {
                    rw.err(format!("R-ITER for: {}", e));
                    return None;
                }
            };
            bind(&fl.pat, &val, &mut binds);
            let start: Expr = start_of(&s).unwrap_or_else(|| parse_quote!(0));
            rw.fire("R-ITER.for");
            let bk = syn::LitStr::new(&format!("body {}", key), Span::call_site());
            rw.events.push(format!("body {}", key));
            Some(parse_quote!({
                let mut #idx: usize = #start;
                while #cond {
                    #mk
                    vx_at!(#bk);
                    #(#binds)*
                    #(#body_stmts)*
                    #idx = #idx + 1;
                }
            }))
        }
        _ => None,
    }
}
