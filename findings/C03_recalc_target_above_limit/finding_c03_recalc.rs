//! Demonstration for the C03 finding: BrakingPoints::recalc stores a point whose speed_target is above its
//! speed_limit when a short higher-speed window lies between a slower section and a faster one.
//! Flat 20 km link; posted (head-end) limits: 5 m/s on [0, 8000], 20 m/s on [8000, 8100], 10 m/s on [8100, 20000].

use altrios_core::prelude::*;
use altrios_core::track::{SpeedLimit, SpeedSet};
use altrios_core::validate::Valid;
use altrios_core::{si, uc};
use std::panic::{catch_unwind, AssertUnwindSafe};

const LINK_LEN_M: f64 = 20_000.0;

fn mps(v: si::Velocity) -> f64 {
    (v / uc::MPS).get::<si::ratio>()
}

fn posted_mps(x_m: f64) -> f64 {
    if x_m < 8000.0 {
        5.0
    } else if x_m < 8100.0 {
        20.0
    } else {
        10.0
    }
}

fn network() -> Vec<Link> {
    let elev = |offset_m: f64| Elev { offset: offset_m * uc::M, elev: 0.0 * uc::M };
    let limit = |a: f64, b: f64, v: f64| SpeedLimit { offset_start: a * uc::M, offset_end: b * uc::M, speed: v * uc::MPS };
    vec![
        Link::default(),
        Link {
            idx_curr: LinkIdx::new(1),
            length: LINK_LEN_M * uc::M,
            elevs: vec![elev(0.0), elev(LINK_LEN_M)],
            speed_set: Some(SpeedSet {
                speed_limits: vec![limit(0.0, 8000.0, 5.0), limit(8000.0, 8100.0, 20.0), limit(8100.0, LINK_LEN_M, 10.0)],
                speed_params: vec![],
                is_head_end: true,
            }),
            ..Default::default()
        },
    ]
}

#[test]
fn target_never_above_limit_with_short_fast_window() {
    let network = network();
    let mut sim = SpeedLimitTrainSim::valid();
    sim.path_tpc = PathTpc::new(TrainParams::valid());
    sim.set_save_interval(Some(1));
    sim.extend_path(&network, &[LinkIdx::new(1)]).expect("the path must be accepted");

    let outcome = catch_unwind(AssertUnwindSafe(|| sim.walk()));
    let h = &sim.history;
    for k in 0..h.len() {
        let t = h.time[k].get::<si::second>();
        let x = h.offset[k].get::<si::meter>();
        let v = mps(h.speed[k]);
        let tgt = mps(h.speed_target[k]);
        let lim = mps(h.speed_limit[k]);
        assert!(tgt <= lim + 1e-9, "controller aims for {tgt} m/s where the limit in force is {lim} m/s (t={t} s, x={x} m)");
        assert!(v <= posted_mps(x) + 1e-9, "overspeed: {v} m/s where {} m/s is posted (t={t} s, x={x} m)", posted_mps(x));
    }
    match outcome {
        Err(p) => panic!(
            "walk panicked after {} saved steps: {}",
            h.len(),
            p.downcast_ref::<String>().cloned().or_else(|| p.downcast_ref::<&str>().map(|s| s.to_string())).unwrap_or_default()
        ),
        Ok(res) => res.expect("walk must succeed"),
    }
}
