pub mod env {
    use super::*;
    pub fn fric_limit(force: f64, force_max: f64, ramp_up_time: f64, dt: f64) -> f64 {
        let mut fb = FricBrake { force_max: Q(force_max), ramp_up_time: Q(ramp_up_time), ramp_up_coeff: Q(0.6),
            state: FricBrakeState { i: 1, force: Q(force), force_max_curr: Q(0.0) }, save_interval: None };
        let _ = fb.set_cur_force_max_out(Q(dt));
        fb.state.force_max_curr.0
    }
}
