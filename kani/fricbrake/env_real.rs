pub mod env {
    use altrios_core::train::{FricBrake, FricBrakeState};
    use altrios_core::uc;
    pub fn fric_limit(force: f64, force_max: f64, ramp_up_time: f64, dt: f64) -> f64 {
        let mut st = FricBrakeState::new();
        st.force = force * uc::N;
        let mut fb = FricBrake::new(force_max * uc::N, ramp_up_time * uc::S, 0.6 * uc::R, Some(st), None);
        let _ = fb.set_cur_force_max_out(dt * uc::S);
        (fb.state.force_max_curr / uc::N).value
    }
}
