#[cfg(kani)]
mod harnesses {
    use super::*;
    macro_rules! scalar { ($name:ident, $ob:ident, $n:expr) => {
        #[kani::proof]
        fn $name() { let v: [f64; $n] = kani::any(); let (got, exp) = $ob(v); assert!(got == exp); }
    }; }
    scalar!(k_fric_limit_le_rating, ob_fric_le_rating, 4);
    scalar!(k_fric_zero_ramp_full_rating, ob_fric_zero_ramp, 4);
    #[kani::proof]
    fn k_canary_must_fail() { let v: [f64; 4] = kani::any(); kani::assume(v[1] >= 0.0 && v[2] > 0.0 && v[3] >= 0.0 && v[0] >= 0.0 && v[0] <= v[1]); let r = env::fric_limit(v[0], v[1], v[2], v[3]); assert!(r != v[1]); }
}
