// oracle.rs — C03 friction-brake limit over IEEE f64; v = [force_applied, force_max (rating), ramp_up_time, dt]
fn admissible(v: [f64; 4]) -> bool {
    !v[0].is_nan() && !v[1].is_nan() && !v[2].is_nan() && !v[3].is_nan() && v[1] >= 0.0 && v[2] >= 0.0 && v[3] >= 0.0 && v[0] != f64::INFINITY
}
/// published limit is a number and never above the rating (holds for -0.0 too: the limit is then -inf)
pub fn ob_fric_le_rating(v: [f64; 4]) -> (bool, bool) {
    if !admissible(v) { return (true, true); }
    let r = env::fric_limit(v[0], v[1], v[2], v[3]);
    (!r.is_nan() && r <= v[1], true)
}
/// the shipped ramp_up_time = 0.0: full rating at once
pub fn ob_fric_zero_ramp(v: [f64; 4]) -> (bool, bool) {
    if !admissible(v) || v[2].to_bits() != 0 /* exactly +0.0: -0.0 would give -inf */ || !(v[0] >= 0.0 && v[0] <= v[1]) || v[1] == f64::INFINITY { return (true, true); }
    let r = env::fric_limit(v[0], v[1], v[2], v[3]);
    (r == v[1], true)
}
