// env_kani.rs — runs the vx-extracted functions (compiled against prelude/q_f64.rs)
pub mod env {
    use super::*;
    fn cnt(f: impl FnOnce(&mut VErrors)) -> usize { let mut e = VErrors::new(); f(&mut e); e.n }
    pub fn chk_num(x: f64) -> usize { cnt(|e| si_chk_num(e, &Q(x), "x")) }
    pub fn chk_num_fin(x: f64) -> usize { cnt(|e| si_chk_num_fin(e, &Q(x), "x")) }
    pub fn chk_gez(x: f64) -> usize { cnt(|e| si_chk_num_gez(e, &Q(x), "x")) }
    pub fn chk_gtz(x: f64) -> usize { cnt(|e| si_chk_num_gtz(e, &Q(x), "x")) }
    pub fn chk_eqz(x: f64) -> usize { cnt(|e| si_chk_num_eqz(e, &Q(x), "x")) }
    pub fn chk_gez_fin(x: f64) -> usize { cnt(|e| si_chk_num_gez_fin(e, &Q(x), "x")) }
    pub fn chk_gtz_fin(x: f64) -> usize { cnt(|e| si_chk_num_gtz_fin(e, &Q(x), "x")) }
    fn cat(s: f64, e: f64, p: f64) -> CatPowerLimit { CatPowerLimit { offset_start: Q(s), offset_end: Q(e), power_limit: Q(p) } }
    fn elev(o: f64, z: f64) -> Elev { Elev { offset: Q(o), elev: Q(z) } }
    fn sl(s: f64, e: f64, v: f64) -> SpeedLimit { SpeedLimit { offset_start: Q(s), offset_end: Q(e), speed: Q(v) } }
    fn heading(o: f64, h: f64) -> Heading { Heading { offset: Q(o), heading: Q(h) } }
    pub fn cat_ok(s: f64, e: f64, p: f64) -> bool { cat(s, e, p).validate().is_ok() }
    pub fn elev_ok(o: f64, z: f64) -> bool { elev(o, z).validate().is_ok() }
    pub fn sl_ok(s: f64, e: f64, v: f64) -> bool { sl(s, e, v).validate().is_ok() }
    pub fn heading_ok(o: f64, h: f64) -> bool { heading(o, h).validate().is_ok() }
    pub fn sparam_ok(x: f64, axle: bool) -> bool { SpeedParam { limit_val: Q(x), limit_type: if axle { LimitType::AxleCount } else { LimitType::MassTotal }, compare_type: CompareType::TpEqualRp }.validate().is_ok() }
    pub fn cats_ok(n: usize, v: [f64; 9]) -> bool {
        let a = [cat(v[0], v[1], v[2]), cat(v[3], v[4], v[5]), cat(v[6], v[7], v[8])];
        cats_validate(&a[..n]).is_ok()
    }
    pub fn elevs_ok(n: usize, v: [f64; 6]) -> bool {
        let a = [elev(v[0], v[1]), elev(v[2], v[3]), elev(v[4], v[5])];
        elevs_validate(&a[..n]).is_ok()
    }
    pub fn headings_ok(n: usize, v: [f64; 6]) -> bool {
        let a = [heading(v[0], v[1]), heading(v[2], v[3]), heading(v[4], v[5])];
        headings_validate(&a[..n]).is_ok()
    }
    pub fn sls_ok(n: usize, v: [f64; 9]) -> bool {
        let a = [sl(v[0], v[1], v[2]), sl(v[3], v[4], v[5]), sl(v[6], v[7], v[8])];
        sls_validate(&a[..n]).is_ok()
    }
}
