// oracle.rs — the C16 obligations decided by Kani, as executable predicates over raw f64 inputs.
// The SAME text is compiled (a) into the Kani crate, where `env::*` runs the functions extracted mechanically
// from /repo by vx against Q(f64), and (b) into the replay crate, where `env::*` runs the real altrios-core
// functions; so a Kani counterexample is replayed against the real code by evaluating the same predicate.
// Each function returns (got, expected); the obligation is got == expected. The `expected` side is written
// from the property statement / the documented rule ("must be a number", ">= 0", "finite", "start <= end",
// "non-overlapping", "sorted", "unique"), never from the code.

pub fn ob_chk_num(v: [f64; 1]) -> (bool, bool) { (env::chk_num(v[0]) == 0, !v[0].is_nan()) }
pub fn ob_chk_num_fin(v: [f64; 1]) -> (bool, bool) { (env::chk_num_fin(v[0]) == 0, !v[0].is_nan() && v[0] != f64::INFINITY && v[0] != f64::NEG_INFINITY) }
pub fn ob_chk_gez(v: [f64; 1]) -> (bool, bool) { (env::chk_gez(v[0]) == 0, v[0] >= 0.0) }
pub fn ob_chk_gtz(v: [f64; 1]) -> (bool, bool) { (env::chk_gtz(v[0]) == 0, v[0] > 0.0) }
pub fn ob_chk_eqz(v: [f64; 1]) -> (bool, bool) { (env::chk_eqz(v[0]) == 0, v[0] == 0.0) }
pub fn ob_chk_gez_fin(v: [f64; 1]) -> (bool, bool) { (env::chk_gez_fin(v[0]) == 0, v[0] >= 0.0 && v[0] != f64::INFINITY) }
pub fn ob_chk_gtz_fin(v: [f64; 1]) -> (bool, bool) { (env::chk_gtz_fin(v[0]) == 0, v[0] > 0.0 && v[0] != f64::INFINITY) }
/// each si_chk_* pushes at most one error
pub fn ob_chk_at_most_one(v: [f64; 1]) -> (bool, bool) {
    (env::chk_num(v[0]) <= 1 && env::chk_num_fin(v[0]) <= 1 && env::chk_gez(v[0]) <= 1 && env::chk_gtz(v[0]) <= 1
        && env::chk_eqz(v[0]) <= 1 && env::chk_gez_fin(v[0]) <= 1 && env::chk_gtz_fin(v[0]) <= 1, true)
}

fn cat_rule(s: f64, e: f64, p: f64) -> bool { s >= 0.0 && e >= 0.0 && p >= 0.0 && s <= e }
fn elev_rule(o: f64, z: f64) -> bool { o >= 0.0 && !z.is_nan() && z != f64::INFINITY && z != f64::NEG_INFINITY }
fn sl_rule(s: f64, e: f64, v: f64) -> bool { s >= 0.0 && e >= 0.0 && !v.is_nan() && s <= e }
const TWO_PI: f64 = 6.283_185_307_179_586;
fn heading_rule(o: f64, h: f64) -> bool { o >= 0.0 && h >= 0.0 && h < TWO_PI }

pub fn ob_cat_elem(v: [f64; 3]) -> (bool, bool) { (env::cat_ok(v[0], v[1], v[2]), cat_rule(v[0], v[1], v[2])) }
pub fn ob_elev_elem(v: [f64; 2]) -> (bool, bool) { (env::elev_ok(v[0], v[1]), elev_rule(v[0], v[1])) }
pub fn ob_sl_elem(v: [f64; 3]) -> (bool, bool) { (env::sl_ok(v[0], v[1], v[2]), sl_rule(v[0], v[1], v[2])) }
pub fn ob_heading_elem(v: [f64; 2]) -> (bool, bool) { (env::heading_ok(v[0], v[1]), heading_rule(v[0], v[1])) }
/// a NaN in any field is always rejected (stated separately so that the obligation has its own name)
pub fn ob_nan_rejected(v: [f64; 3]) -> (bool, bool) {
    let any_nan3 = v[0].is_nan() || v[1].is_nan() || v[2].is_nan();
    let any_nan2 = v[0].is_nan() || v[1].is_nan();
    let got = (!any_nan3 || (!env::cat_ok(v[0], v[1], v[2]) && !env::sl_ok(v[0], v[1], v[2])))
        && (!any_nan2 || (!env::elev_ok(v[0], v[1]) && !env::heading_ok(v[0], v[1])));
    (got, true)
}

pub fn ob_sparam_mass(v: [f64; 1]) -> (bool, bool) { (env::sparam_ok(v[0], false), v[0] >= 0.0) }
/// "must also be an integer": written without float intrinsics (CBMC models `%` only approximately): every f64 >= 2^53
/// (and +inf, as for IEEE trunc) has no fractional part; below that x is an integer iff it survives the round trip via u64
pub fn ob_sparam_axle(v: [f64; 1]) -> (bool, bool) {
    let x = v[0];
    (env::sparam_ok(x, true), x >= 0.0 && (x >= 9007199254740992.0 || ((x as u64) as f64) == x))
}

// ---- slice validators: n <= 3 elements (BOUNDED, never counted as proved)
pub fn ob_cats(n: usize, v: [f64; 9]) -> (bool, bool) {
    let mut exp = true;
    let mut i = 0;
    while i < n { exp = exp && cat_rule(v[3 * i], v[3 * i + 1], v[3 * i + 2]); i += 1; }
    let mut i = 0;
    while i + 1 < n { exp = exp && v[3 * i + 1] <= v[3 * (i + 1)]; i += 1; }
    (env::cats_ok(n, v), exp)
}
pub fn ob_elevs(n: usize, v: [f64; 6]) -> (bool, bool) {
    let mut exp = n >= 2;
    let mut i = 0;
    while i < n { exp = exp && elev_rule(v[2 * i], v[2 * i + 1]); i += 1; }
    let mut i = 0;
    while i + 1 < n { exp = exp && v[2 * i] < v[2 * (i + 1)]; i += 1; }
    (env::elevs_ok(n, v), n == 0 || exp)
}
pub fn ob_headings(n: usize, v: [f64; 6]) -> (bool, bool) {
    let mut exp = n >= 2;
    let mut i = 0;
    while i < n { exp = exp && heading_rule(v[2 * i], v[2 * i + 1]); i += 1; }
    let mut i = 0;
    while i + 1 < n { exp = exp && v[2 * i] < v[2 * (i + 1)]; i += 1; }
    (env::headings_ok(n, v), n == 0 || exp)
}
/// lexicographic (offset_start, offset_end, speed) order on valid (NaN-free) limits
fn sl_le(a: &[f64], b: &[f64]) -> bool {
    a[0] < b[0] || (a[0] == b[0] && (a[1] < b[1] || (a[1] == b[1] && a[2] <= b[2])))
}
pub fn ob_sls(n: usize, v: [f64; 9]) -> (bool, bool) {
    let mut exp = true;
    let mut i = 0;
    while i < n { exp = exp && sl_rule(v[3 * i], v[3 * i + 1], v[3 * i + 2]); i += 1; }
    let mut i = 0;
    while i + 1 < n {
        let (a, b) = (&v[3 * i..3 * i + 3], &v[3 * (i + 1)..3 * (i + 1) + 3]);
        exp = exp && !(a[0] == b[0] && a[1] == b[1]) && sl_le(a, b);
        i += 1;
    }
    (env::sls_ok(n, v), n == 0 || exp)
}
