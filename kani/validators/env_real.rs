// env_real.rs — runs the REAL altrios-core functions (replay of a Kani counterexample)
pub mod env {
    use altrios_core::si;
    use altrios_core::track::{CatPowerLimit, CompareType, Elev, Heading, LimitType, SpeedLimit, SpeedParam};
    use altrios_core::uc;
    use altrios_core::validate::*;
    fn cnt(f: impl FnOnce(&mut ValidationErrors)) -> usize { let mut e = ValidationErrors::new(); f(&mut e); e.len() }
    fn m(x: f64) -> si::Length { uc::M * x }
    pub fn chk_num(x: f64) -> usize { cnt(|e| si_chk_num(e, &m(x), "x")) }
    pub fn chk_num_fin(x: f64) -> usize { cnt(|e| si_chk_num_fin(e, &m(x), "x")) }
    pub fn chk_gez(x: f64) -> usize { cnt(|e| si_chk_num_gez(e, &m(x), "x")) }
    pub fn chk_gtz(x: f64) -> usize { cnt(|e| si_chk_num_gtz(e, &m(x), "x")) }
    pub fn chk_eqz(x: f64) -> usize { cnt(|e| si_chk_num_eqz(e, &m(x), "x")) }
    pub fn chk_gez_fin(x: f64) -> usize { cnt(|e| si_chk_num_gez_fin(e, &m(x), "x")) }
    pub fn chk_gtz_fin(x: f64) -> usize { cnt(|e| si_chk_num_gtz_fin(e, &m(x), "x")) }
    fn cat(s: f64, e: f64, p: f64) -> CatPowerLimit { CatPowerLimit { offset_start: m(s), offset_end: m(e), power_limit: uc::W * p, district_id: None } }
    fn elev(o: f64, z: f64) -> Elev { Elev { offset: m(o), elev: m(z) } }
    fn sl(s: f64, e: f64, v: f64) -> SpeedLimit { SpeedLimit { offset_start: m(s), offset_end: m(e), speed: uc::MPS * v } }
    fn heading(o: f64, h: f64) -> Heading { Heading { offset: m(o), heading: uc::RAD * h, lat: None, lon: None } }
    pub fn cat_ok(s: f64, e: f64, p: f64) -> bool { cat(s, e, p).validate().is_ok() }
    pub fn elev_ok(o: f64, z: f64) -> bool { elev(o, z).validate().is_ok() }
    pub fn sl_ok(s: f64, e: f64, v: f64) -> bool { sl(s, e, v).validate().is_ok() }
    pub fn heading_ok(o: f64, h: f64) -> bool { heading(o, h).validate().is_ok() }
    pub fn sparam_ok(x: f64, axle: bool) -> bool { SpeedParam { limit_val: x, limit_type: if axle { LimitType::AxleCount } else { LimitType::MassTotal }, compare_type: CompareType::TpEqualRp }.validate().is_ok() }
    pub fn cats_ok(n: usize, v: [f64; 9]) -> bool { [cat(v[0], v[1], v[2]), cat(v[3], v[4], v[5]), cat(v[6], v[7], v[8])][..n].validate().is_ok() }
    pub fn elevs_ok(n: usize, v: [f64; 6]) -> bool { [elev(v[0], v[1]), elev(v[2], v[3]), elev(v[4], v[5])][..n].validate().is_ok() }
    pub fn headings_ok(n: usize, v: [f64; 6]) -> bool { [heading(v[0], v[1]), heading(v[2], v[3]), heading(v[4], v[5])][..n].validate().is_ok() }
    pub fn sls_ok(n: usize, v: [f64; 9]) -> bool { [sl(v[0], v[1], v[2]), sl(v[3], v[4], v[5]), sl(v[6], v[7], v[8])][..n].validate().is_ok() }
}
