// harness.rs — one Kani harness per named obligation. Scalar harnesses are loop-free over the FULL f64
// domain (complete proofs); slice harnesses are bounded to n <= 3 elements and labelled so.
#[cfg(kani)]
mod harnesses {
    use super::*;
    macro_rules! scalar { ($name:ident, $ob:ident, $n:expr) => {
        #[kani::proof]
        fn $name() { let v: [f64; $n] = kani::any(); let (got, exp) = $ob(v); assert!(got == exp); }
    }; }
    scalar!(k_chk_num, ob_chk_num, 1);
    scalar!(k_chk_num_fin, ob_chk_num_fin, 1);
    scalar!(k_chk_gez, ob_chk_gez, 1);
    scalar!(k_chk_gtz, ob_chk_gtz, 1);
    scalar!(k_chk_eqz, ob_chk_eqz, 1);
    scalar!(k_chk_gez_fin, ob_chk_gez_fin, 1);
    scalar!(k_chk_gtz_fin, ob_chk_gtz_fin, 1);
    scalar!(k_chk_at_most_one, ob_chk_at_most_one, 1);
    scalar!(k_cat_elem, ob_cat_elem, 3);
    scalar!(k_elev_elem, ob_elev_elem, 2);
    scalar!(k_sl_elem, ob_sl_elem, 3);
    scalar!(k_heading_elem, ob_heading_elem, 2);
    scalar!(k_nan_rejected, ob_nan_rejected, 3);
    scalar!(k_sparam_mass, ob_sparam_mass, 1);
    scalar!(k_sparam_axle, ob_sparam_axle, 1);
    macro_rules! slice { ($name:ident, $ob:ident, $n:expr) => {
        #[kani::proof]
        #[kani::unwind(5)]
        fn $name() { let n: usize = kani::any(); kani::assume(n <= 3); let v: [f64; $n] = kani::any(); let (got, exp) = $ob(n, v); assert!(got == exp); }
    }; }
    slice!(kb_cats, ob_cats, 9);
    slice!(kb_elevs, ob_elevs, 6);
    slice!(kb_headings, ob_headings, 6);
    slice!(kb_sls, ob_sls, 9);
    // vacuity guard: this harness MUST FAIL (reachability of the assertion site behind the same inputs)
    #[kani::proof]
    fn k_canary_must_fail() { let v: [f64; 3] = kani::any(); let (got, _) = ob_cat_elem(v); assert!(!got); }
}
