#!/usr/bin/env python3
"""seedtest.py <seed_dir> <prop> [<prop>...] — run the registered checks against a scratch copy of the
sources with the seeded patch applied (never /repo)."""
import os, shutil, subprocess, sys, tempfile
ROOT = os.path.dirname(os.path.dirname(os.path.abspath(__file__)))
sd = sys.argv[1]
tmp = tempfile.mkdtemp(prefix="vxseed_", dir="/tmp")
try:
    shutil.copytree("/repo/rust", os.path.join(tmp, "rust"), ignore=shutil.ignore_patterns("target"))
    r = subprocess.run(["patch", "-p1", "-d", tmp, "-i", os.path.join(sd, "patch.diff")], capture_output=True, text=True)
    if r.returncode != 0:
        print("PATCH FAILED", r.stdout, r.stderr); sys.exit(2)
    for p in sys.argv[2:]:
        env = dict(os.environ, VERIF_REPO=tmp, VERIF_EVIDENCE_DIR=os.path.join(tmp, "evidence"))
        r = subprocess.run([sys.executable, os.path.join(ROOT, "run", "check.py"), p], capture_output=True, text=True, env=env)
        print(p, "rc=%d" % r.returncode)
        for l in r.stdout.split("\n"):
            if l.startswith(("VIOLATION", "UNDECIDED", "KNOWN")): print("   ", l[:300])
finally:
    shutil.rmtree(tmp, ignore_errors=True)
