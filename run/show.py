#!/usr/bin/env python3
import sys, os
sys.path.insert(0, '/verif/run')
import vlib
g = vlib.load_group(sys.argv[1])
os.makedirs('/verif/build/' + sys.argv[1], exist_ok=True)
items = vlib.extract(g, '/verif/build/' + sys.argv[1])
for it in items:
    if len(sys.argv) < 3 or any(a in it['id'] for a in sys.argv[2:]):
        print("// ====", it['id'], it['rules'])
        print(it['ftext'])
