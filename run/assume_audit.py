#!/usr/bin/env python3
"""assume_audit.py — every unit that some group ASSUMES (abstracted callee, `assume: true`) must be PROVED in another
group under a contract that is at least as strong: each assumed ensures-clause text occurs among the proved ensures
of the owning group, and the owner's requires are a subset of the assumer's requires (the assumer's call sites check
them). Prints one line per problem; exit 0 when clean, 1 otherwise. Units proved nowhere are listed as TRUSTED."""
import json, os, sys
sys.path.insert(0, os.path.dirname(os.path.abspath(__file__)))
import vlib

def norm(t):
    return " ".join(t.split()).rstrip(",")

def units_of(group):
    units = {}
    for cf in group["contracts"]:
        pre, us = vlib.parse_contract(os.path.join(vlib.ROOT, cf))
        for uid, u in us.items():
            allowed = group.get("unit_files", {}).get(uid)
            if allowed is not None and cf not in allowed:
                continue
            if uid in units:
                units[uid].requires += u.requires
                units[uid].ensures += u.ensures
            else:
                units[uid] = u
    return units

def audit():
    """-> (mismatches: list of dict(unit, assumed_in, proved_in, ensures_missing, requires_unchecked), trusted: list of (unit, groups))"""
    groups = {}
    for f in sorted(os.listdir(os.path.join(vlib.ROOT, "groups"))):
        g = vlib.load_group(f[:-5])
        groups[g["name"]] = (g, units_of(g))
    proved, assumed = {}, {}
    for name, (g, us) in groups.items():
        for it in g["items"]:
            if it["kind"] in ("struct", "enum", "type", "struct_raw"):
                continue
            (assumed if it.get("assume") else proved).setdefault(it["id"], []).append(name)
    mism = []
    trusted = []
    for uid, gs in sorted(assumed.items()):
        if uid not in proved:
            trusted.append((uid, gs))
            continue
        for ga in gs:
            ua = groups[ga][1].get(uid)
            ens_a = set(norm(c.text) for c in (ua.ensures if ua else []))
            req_a = set(norm(c.text) for c in (ua.requires if ua else []))
            owners = []
            for gp in proved[uid]:
                up = groups[gp][1].get(uid)
                owners.append((gp, set(norm(c.text) for c in (up.ensures if up else [])), set(norm(c.text) for c in (up.requires if up else []))))
            # clause by clause (a unit may be proved in parts by several groups, each under its own preconditions): every
            # assumed ensures must be proved by SOME owner whose requires are all among the assumer's requires
            unproved = []
            unchained = {}
            for e in sorted(ens_a):
                if e == "true":
                    continue
                holders = [(gp, rp) for gp, ep, rp in owners if e in ep]
                if not holders:
                    unproved.append(e)
                    continue
                if not any(all(r in req_a for r in rp) for gp, rp in holders):
                    gp, rp = holders[0]
                    unchained.setdefault(gp, set()).update(r for r in rp if r not in req_a)
            if unproved:
                mism.append({"unit": uid, "assumed_in": ga, "proved_in": ",".join(g for g, _e, _r in owners), "ensures_missing": unproved, "requires_unchecked": [],
                             "only_frame": False})
            for gp, rs in sorted(unchained.items()):
                mism.append({"unit": uid, "assumed_in": ga, "proved_in": gp, "ensures_missing": [], "requires_unchecked": sorted(rs),
                             "only_frame": not [e for e in ens_a if e != "true"]})
            if not [e for e in ens_a if e != "true"]:
                # frame-only entry (no ensures assumed): still report the owner's unchecked requires, as before
                for gp, _ep, rp in owners:
                    miss_r = [r for r in rp if r not in req_a]
                    if miss_r and not any(m["unit"] == uid and m["assumed_in"] == ga and m["proved_in"] == gp for m in mism):
                        mism.append({"unit": uid, "assumed_in": ga, "proved_in": gp, "ensures_missing": [], "requires_unchecked": miss_r, "only_frame": True})
    return mism, trusted, len(assumed)


def main():
    mism, trusted, n = audit()
    bad = 0
    for m in mism:
        if m["ensures_missing"]:
            bad += 1
        print("%s %s assumed in %s:" % ("MISMATCH" if m["ensures_missing"] else "UNCHAINED-PRE", m["unit"], m["assumed_in"]))
        for e in m["ensures_missing"]:
            print("    ensures assumed but not proved in %s: %s" % (m["proved_in"], e[:160]))
        for r in m["requires_unchecked"]:
            print("    requires used by the proof in %s but not checked by the assumer: %s" % (m["proved_in"], r[:160]))
    for uid, gs in trusted:
        print("TRUSTED (assumed in %s, proved nowhere): %s" % (",".join(gs), uid))
    print("assumed units: %d, mismatching ensures: %d, unchained preconditions: %d, trusted: %d" % (n, bad, sum(1 for m in mism if m["requires_unchecked"]), len(trusted)))
    return 1 if bad else 0

if __name__ == "__main__":
    sys.exit(main())
