#!/usr/bin/env python3
import sys, json
sys.path.insert(0, '/verif/run')
import vlib
g = sys.argv[1]
try:
    b = vlib.build_group(g, canary=('--canary' in sys.argv))
except vlib.Undecided as e:
    print("UNDECIDED", e); sys.exit(2)
path = b['canary_path'] if '--canary' in sys.argv else b['main_path']
a = b['canary'] if '--canary' in sys.argv else b['main']
res = vlib.run_verus(path)
an = vlib.analyse(a, res)
print("wall %.1fs verified=%s errors=%s" % (res['wall'], an.get('verified'), an.get('errors')))
for u in an['undecided']: print("UNDECIDED:", u)
for f in an['failures']:
    print("FAIL:", f['obligation'], f['props'], '|', f['message'], 'line', f['line'])
    if '-v' in sys.argv: print(f['rendered'])
if '-r' in sys.argv:
    for d in res['diags']:
        if d.get('level')=='error': print(d.get('rendered'))
    for l in res['raw'][-10:]: print('RAW', l)
for n,f in sorted(an['fns'].items()):
    if not f['success'] or f['ms']>2000: print("  fn", n, f)
