#!/usr/bin/env python3
"""gen_tables.py — regenerate the seed table of DESIGN.md section 11.5 (between the markers) from seeded/*/meta.json and the
fault counts from faults/*.json."""
import json, os, re
ROOT = os.path.dirname(os.path.dirname(os.path.abspath(__file__)))
rows = []
for d in sorted(os.listdir(os.path.join(ROOT, "seeded"))):
    m = json.load(open(os.path.join(ROOT, "seeded", d, "meta.json")))
    cb = "; ".join(m.get("caught_by", [])).replace("|", "\\|")
    rows.append("| `%s` | %s | %s |" % (d, m.get("property"), cb))
faults = []
for f in sorted(os.listdir(os.path.join(ROOT, "faults"))):
    if f.endswith(".json"):
        faults.append("%s %d" % (f[:-5], len(json.load(open(os.path.join(ROOT, "faults", f))))))
s = open(os.path.join(ROOT, "DESIGN.md")).read()
tbl = "| seed | property | caught by (obligation) |\n|---|---|---|\n" + "\n".join(rows) + "\n"
s2 = re.sub(r"\| seed \| property \| caught by \(obligation\) \|\n\|---\|---\|---\|\n(?:\|.*\n)+", tbl, s, count=1)
s2 = re.sub(r"copy of the sources, never on /repo\): .*?\. Every fault is caught except", "copy of the sources, never on /repo): " + ", ".join(faults) + ". Every fault is caught except", s2, count=1, flags=re.S)
open(os.path.join(ROOT, "DESIGN.md"), "w").write(s2)
print("seeds:", len(rows), "fault files:", len(faults))
