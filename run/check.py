#!/usr/bin/env python3
"""check.py <property-id> [--tier quick|thorough]

Decides one property by contract-based deductive verification of the real code:
extracts the functions the property depends on from /repo's current working
tree, splices the committed contracts, runs Verus, maps every failed proof
obligation back to its named clause, runs the vacuity canaries, writes
/verif/evidence/<id>.json and exits 0 / 1 (+ VIOLATION line) / 2 (undecided).
"""
import re
import concurrent.futures as cf
import json
import os
import sys
import time

sys.path.insert(0, os.path.dirname(os.path.abspath(__file__)))
import vlib  # noqa: E402
import kani as kanilib  # noqa: E402
import assume_audit  # noqa: E402

ROOT = vlib.ROOT


def load_props():
    return json.load(open(os.path.join(ROOT, "run", "properties.json")))


def load_known():
    p = os.path.join(ROOT, "known_findings.json")
    if not os.path.exists(p):
        return []
    return json.load(open(p)).get("findings", [])


def obligations_for(pid, built):
    """inventory of named obligations of property pid in one built group"""
    obs = []
    for it in built["items"]:
        uid = it["id"]
        u = built["main"].units.get(uid)
        if u is None:
            continue
        uc = built["units"].get(uid)
        safety = u["safety"]
        if uc:
            for c in uc.ensures:
                props = c.props or safety
                if pid in props or "*" in props:
                    obs.append({"unit": uid, "label": c.label, "kind": "ensures", "obligation": "%s/%s" % (uid, c.label), "text": " ".join(c.text.split())[:400]})
            for key, (props, t) in uc.loops.items():
                if pid in (props or safety) or "*" in (props or safety):
                    obs.append({"unit": uid, "label": key, "kind": "loop", "obligation": "%s/loop %s" % (uid, key), "text": " ".join(t.split())[:400]})
        if pid in safety or "*" in safety:
            obs.append({"unit": uid, "label": "safety", "kind": "safety", "obligation": "%s/safety" % uid,
                        "text": "implicit: index bounds, integer overflow, callee preconditions, unwrap on Some/Ok, proof hints, termination"})
    return obs


def run_group(gname, tier, seed):
    t0 = time.time()
    built = vlib.build_group(gname, canary=True)
    with cf.ThreadPoolExecutor(max_workers=4) as ex:
        fm = ex.submit(vlib.run_verus, built["main_path"], 5)
        fc = ex.submit(vlib.run_verus, built["canary_path"], 1, 3)  # small rlimit: a vacuous contract verifies at once; running out of resources counts as "not vacuous"
        extra = []
        if tier == "thorough":
            for k in range(2):
                extra.append(ex.submit(vlib.run_verus, built["main_path"], 20, None, ["--smt-option", "smt.random_seed=%d" % (seed + 17 * (k + 1))]))
        main = fm.result()
        can = fc.result()
        extra = [e.result() for e in extra]
    am = vlib.analyse(built["main"], main)
    if any("resource limit" in u.lower() or "rlimit" in u.lower() for u in am["undecided"]) and main.get("wall", 1e9) < 60:
        # a unit ran out of solver resources in a short run: one retry with a 3x budget and a 3 min wall-clock cap before
        # giving up (exit 2, never an alarm); long runs are not retried
        try:
            main2 = vlib.run_verus(built["main_path"], 20, 30, None, 180)
            am2 = vlib.analyse(built["main"], main2)
            if len(am2["undecided"]) < len(am["undecided"]):
                main, am = main2, am2
                am["rlimit_retry"] = True
        except vlib.Undecided:
            pass
    ac = vlib.analyse(built["canary"], can)
    # proof hints are optional accelerators: a hint that no longer holds is removed and the
    # obligations are re-checked without it, so a failed hint is never itself a violation
    dropped = set()
    anchor_lost = set()
    for _ in range(3):
        hf = set((f["clause_unit"], f["clause"]) for f in am["failures"] if f.get("clause_kind") == "at" and ("let ghost" not in f.get("rendered", "") or f.get("frontend_in_hint"))) - dropped
        # a hint that no longer COMPILES names something that is gone (a renamed local, a removed statement): the unit's
        # proof has lost an anchor; whatever fails in that unit afterwards is undecided, never a violation
        anchor_lost |= set(f["clause_unit"] for f in am["failures"] if f.get("clause_kind") == "at" and f.get("frontend_in_hint"))
        if not hf:
            break
        dropped |= hf
        a2, p2 = vlib.rebuild_without_hints(built, dropped)
        main = vlib.run_verus(p2, 5)
        built["main"] = a2
        am = vlib.analyse(a2, main)
    am["hints_dropped"] = sorted("%s @ %s" % x for x in dropped)
    am["anchor_lost_units"] = sorted(anchor_lost)
    stab = [vlib.analyse(built["main"], e) for e in extra]
    return {"built": built, "main": main, "am": am, "can": can, "ac": ac, "stab": stab, "wall": time.time() - t0}


def main():
    args = sys.argv[1:]
    if not args:
        print(__doc__)
        return 2
    pid = args[0]
    vlib.SUB = pid  # this check's own build sub-directory (concurrent checks of other properties never share files)
    tier = os.environ.get("VERIF_TIER", "quick")
    if "--tier" in args:
        tier = args[args.index("--tier") + 1]
    seed = int(os.environ.get("VERIF_SEED", "0") or 0)
    t0 = time.time()
    props = load_props()
    if pid not in props:
        print("UNDECIDED property=%s reason=not claimed" % pid)
        return 2
    spec = props[pid]
    known = [k for k in load_known() if k.get("property") == pid]
    evidence_path = os.path.join(os.environ.get("VERIF_EVIDENCE_DIR", os.path.join(ROOT, "evidence")), pid + ".json")
    os.makedirs(os.path.dirname(evidence_path), exist_ok=True)
    undecided = []
    failures = []
    obligations = []
    functions = []
    canaries = {"must_fail": 0, "failed": 0, "verified_unexpectedly": []}
    solver_ms = 0.0
    checker_cmds = []
    rules = {}
    scan = {}
    table = []
    unstable = []
    groups_out = {}
    for gname in spec["groups"]:
        try:
            r = run_group(gname, tier, seed)
        except vlib.Undecided as e:
            undecided.append("%s: %s" % (gname, e))
            continue
        built = r["built"]
        am, ac = r["am"], r["ac"]
        checker_cmds.append(r["main"]["cmd"])
        groups_out[gname] = {"wall_s": round(r["wall"], 2), "verified": am.get("verified"), "errors": am.get("errors"), "hints_dropped": am.get("hints_dropped", [])}
        for u in am["undecided"]:
            undecided.append("%s: %s" % (gname, u))
        obs = obligations_for(pid, built)
        failed_obs = {}
        lost = set(am.get("anchor_lost_units", []))
        for f in am["failures"]:
            if f.get("props") and (pid in f["props"] or "*" in f["props"]):
                if f.get("owner") in lost or f.get("clause_unit") in lost:
                    undecided.append("%s: a proof hint of %s no longer compiles (it names a local or statement that is gone: structure changed); %s is not decided"
                                     % (gname, f.get("clause_unit") or f.get("owner"), f["obligation"]))
                    failed_obs[f["obligation"]] = f
                    continue
                failures.append(dict(f, group=gname))
                failed_obs[f["obligation"]] = f
        # callee rule: verification is modular, so the proof of a P-labelled clause of unit U leans on the contract of every
        # unit V that U calls. When V fails a clause that does not itself name P, P's proof has a hole: not an alarm
        # (the failing clause belongs to another property's statement), but not decided either - never silently exit 0.
        # Applies only when V has no P-labelled clause of its own (otherwise those are what P's proofs lean on).
        p_units = set(o["unit"] for o in obs)
        for f in am["failures"]:
            if f.get("props") and (pid in f["props"] or "*" in f["props"]):
                continue
            v = f.get("clause_unit") or f.get("owner")
            if not v or v not in built["main"].units:
                continue
            # V carries clauses for P of its own and none of THEM failed: P's proofs in the callers go through those
            if pid in (built["main"].units[v].get("props") or []):
                continue
            vname = v.split("/")[0].split("::")[-1].replace("fn ", "").strip()
            if not re.match(r"^[A-Za-z_][A-Za-z0-9_]*$", vname):
                continue
            for uid in sorted(p_units):
                if uid == v or uid.split("/")[0] == v.split("/")[0]:
                    continue
                lo, hi = built["main"].units[uid]["range"]
                body = "\n".join(built["main"].lines[lo:hi])
                if re.search(r"(?:\.|::|\b)%s\s*\(" % re.escape(vname), body):
                    undecided.append("%s: %s (a callee of %s, whose clauses for %s are proved against its contract) fails %s: %s is not decided"
                                     % (gname, v, uid, pid, f["obligation"], pid))
                    break
        # stability: a clause failing only under another seed is unstable -> undecided
        for s in r["stab"]:
            for u in s["undecided"]:
                unstable.append("%s: %s" % (gname, u))
            for f in s["failures"]:
                if f.get("props") and (pid in f["props"] or "*" in f["props"]) and f["obligation"] not in failed_obs:
                    unstable.append("%s: %s fails under another solver seed" % (gname, f["obligation"]))
        units_of_p = sorted(set(o["unit"] for o in obs))
        for o in obs:
            u = built["main"].units[o["unit"]]
            fr = am["fns"].get(u["fn"])
            # a failed precondition at a call site / hint belongs to the unit's safety obligation
            bad = o["obligation"] in failed_obs or (o["kind"] == "safety" and any(
                f["owner"] == o["unit"] and f["obligation"] not in [x["obligation"] for x in obs if x["kind"] != "safety"] for f in failures if f.get("group") == gname))
            # a function that failed without a clause-level diagnostic (resource limit, timeout) discharges nothing
            unit_has_diag = any(f.get("owner") == o["unit"] or f.get("clause_unit") == o["unit"] for f in am["failures"])
            o["discharged"] = (not bad) and fr is not None and (fr["success"] or unit_has_diag)
            if fr is None:
                undecided.append("%s: no verifier result for %s" % (gname, u["fn"]))
                o["discharged"] = False
            o["ms"] = fr["ms"] if fr else None
            o["rlimit"] = fr["rlimit"] if fr else None
            o["backend"] = "verus/z3"
            o["group"] = gname
            table.append(o)
        obligations.extend(obs)
        # spec-level theorems (proof fns in the contract preamble that carry part of the property statement)
        for th in spec.get("theorems", {}).get(gname, []):
            fr = am["fns"].get(th["name"])
            o = {"unit": "theorem", "label": th["name"], "kind": "theorem", "obligation": "%s/theorem %s" % (gname, th["name"]), "text": th["text"],
                 "discharged": bool(fr and fr["success"]), "ms": fr["ms"] if fr else None, "rlimit": fr["rlimit"] if fr else None, "backend": "verus/z3", "group": gname}
            if fr is None:
                undecided.append("%s: theorem %s not found in the verifier output" % (gname, th["name"]))
            elif not fr["success"]:
                undecided.append("%s: theorem %s is not proved on this run" % (gname, th["name"]))
            obligations.append(o)
            table.append(o)
        for it in built["items"]:
            if it["id"] in units_of_p or (it["id"].startswith(("struct ", "enum ")) ):
                functions.append({"id": it["id"], "file": it["file"], "lines": [it["line_start"], it["line_end"]], "sha256": it.get("sha256"), "rules": it["rules"], "under_contract": it["id"] in units_of_p})
            for k, v in it["rules"].items():
                rules[k] = rules.get(k, 0) + v
        # canaries of the units this property relies on
        for uid in units_of_p:
            cu = built["canary"].units.get(uid + "#canary")
            if cu is None:
                continue
            canaries["must_fail"] += 1
            fr = ac["fns"].get(cu["fn"])
            if fr is not None and not fr["success"]:
                canaries["failed"] += 1
            elif fr is not None and fr["success"]:
                canaries["verified_unexpectedly"].append(uid)
            else:
                undecided.append("%s: canary of %s produced no result" % (gname, uid))
        for u in ac["undecided"]:
            undecided.append("%s (canary file): %s" % (gname, u))
        for fn, fr in am["fns"].items():
            solver_ms += fr["ms"]
        sc = vlib.assumption_scan(built["main"].text())
        for k, v in sc.items():
            scan[k] = scan.get(k, 0) + v
        allow = built["group"].get("assumption_allow")
        if allow is not None:
            for k, v in sc.items():
                if v > allow.get(k, 0):
                    undecided.append("%s: assumption scan: %d x `%s` exceeds committed allow-list (%d)" % (gname, v, k, allow.get(k, 0)))
    # ---- Kani side (complete loop-free full-domain harnesses; bounded slice harnesses labelled so)
    kani_violations = []
    bounded_checks = []
    kani_out = {}
    for cname in spec.get("kani", []):
        try:
            kspec, kdir, kex, kres = kanilib.run_all(cname, tier)
        except vlib.Undecided as e:
            undecided.append("kani %s: %s" % (cname, e))
            continue
        kani_out[cname] = {"harnesses": len(kres), "wall_s": round(sum(r["s"] for r in kres.values()), 1)}
        for it in kex:
            functions.append({"id": "kani:" + it["id"], "file": it["file"], "lines": [it["line_start"], it["line_end"]], "sha256": it.get("sha256"), "rules": it["rules"], "under_contract": "vx_contract!" in it["ftext"]})
        for hn, h in kspec["harnesses"].items():
            r = kres.get(hn)
            if r is None:
                continue
            kcmd = "(cd build/%s/kani_%s && %s)" % (pid, cname, r["cmd"].replace("harnesses::" + hn, "harnesses::<each of the %d harnesses listed in obligation_table>" % len(kspec["harnesses"])))
            if kcmd not in checker_cmds:
                checker_cmds.append(kcmd)
            solver_ms += r["s"] * 1000.0
            ob = {"unit": "kani:%s" % cname, "label": h["label"], "kind": "kani-" + h["kind"], "obligation": "kani/%s/%s" % (cname, h["label"]),
                  "text": h["text"] + (" [BOUNDED: %s]" % h["bound"] if h.get("bound") else ""), "backend": "kani 0.68/cbmc", "ms": r["s"] * 1000.0, "group": "kani:" + cname,
                  "cbmc_checks": r.get("n_checks")}
            if h["kind"] == "canary":
                canaries["must_fail"] += 1
                if r["status"] == "failed":
                    canaries["failed"] += 1
                elif r["status"] == "ok":
                    canaries["verified_unexpectedly"].append("kani:" + hn)
                else:
                    undecided.append("kani %s/%s: canary gave %s" % (cname, hn, r["status"]))
                continue
            if r["status"] in ("timeout", "error"):
                undecided.append("kani %s/%s: %s: %s" % (cname, hn, r["status"], r["output"][-300:].replace("\n", " ")))
                ob["discharged"] = False
            elif r["status"] == "ok":
                ob["discharged"] = True
            else:
                ob["discharged"] = False
                inp = kanilib.decode_inputs(h, r.get("playback"))
                rep = None
                if inp is not None and not os.environ.get("VERIF_NO_REPLAY"):
                    try:
                        rep = kanilib.replay_real(cname, hn, inp)
                    except Exception as e:  # noqa: BLE001
                        rep = {"built": False, "output": "replay raised %r" % (e,)}
                f = {"obligation": ob["obligation"], "props": [pid], "message": "; ".join(r.get("failed_checks") or []), "rendered": r["output"][-4000:],
                     "owner": ob["unit"], "clause_unit": ob["unit"], "group": "kani:" + cname, "failing_input": inp, "replay": rep, "harness": hn}
                if rep and rep.get("built") and not rep.get("confirmed_on_real_code"):
                    # the extracted text and the real code disagree on this input: never an alarm
                    undecided.append("kani %s/%s: counterexample %s does NOT reproduce on the real code (%s): extraction/shim mismatch" % (cname, hn, inp, rep.get("output", "").strip()[:200]))
                else:
                    kani_violations.append(f)
            if h["kind"] == "bounded":
                bounded_checks.append(dict(ob, status=r["status"]))
            else:
                obligations.append(ob)
                table.append(ob)
    if canaries["verified_unexpectedly"]:
        undecided.append("vacuous contract (canary verified): %s" % canaries["verified_unexpectedly"])
    if tier == "thorough" and unstable:
        undecided.extend("unstable: " + u for u in unstable)
    if not obligations and not undecided:
        undecided.append("no obligations generated for %s" % pid)

    # thorough tier: seeded-fault regression — every committed fault of this property's groups is applied to a scratch copy
    # and this property's quick check must still give the expected exit code (1 unless the fault file says otherwise).
    # A fault that is no longer detected means the check lost sensitivity: exit 2 (never an alarm about /repo).
    selftest = {"run": 0, "as_expected": 0, "unexpected": []}
    open_known = set(x.get("obligation") for x in known if x.get("status") == "open")
    if tier == "thorough" and not os.environ.get("VERIF_NO_SELFTEST") and not undecided and all(f.get("obligation") in open_known for f in failures + kani_violations):
        import mutate as mutlib
        os.environ["VERIF_SELFTEST_FAST"] = "1"  # inside the regression only the exit code matters: Kani counterexamples are not replayed
        jobs = []
        for gname in spec["groups"]:
            fp = os.path.join(ROOT, "faults", gname + ".json")
            if not os.path.exists(fp):
                continue
            for f in json.load(open(fp)):
                if pid in f.get("props", []):
                    jobs.append((gname, f))
        with cf.ThreadPoolExecutor(max_workers=3) as ex:
            futs = {ex.submit(mutlib.run_fault, f, [pid]): (g, f) for g, f in jobs}
            for fu in cf.as_completed(futs):
                g, f = futs[fu]
                exp = f.get("expect", {}).get(pid, 1) if isinstance(f.get("expect"), dict) else f.get("expect", 1)
                try:
                    res = fu.result()
                    got = res[0][1]
                except Exception as e:  # noqa: BLE001
                    got = "error %r" % (e,)
                selftest["run"] += 1
                ok = (got == exp) or (isinstance(exp, list) and got in exp)
                if ok:
                    selftest["as_expected"] += 1
                else:
                    selftest["unexpected"].append("%s/%s: expected exit %s, got %s" % (g, f["id"], exp, got))
        if selftest["unexpected"]:
            undecided.append("seeded-fault regression: %s" % "; ".join(selftest["unexpected"])[:1500])

    # known findings
    violations = []
    known_hits = []
    failures.extend(kani_violations)
    for f in failures:
        k = [x for x in known if x.get("status") == "open" and x.get("obligation") == f["obligation"]]
        if k:
            known_hits.append((k[0], f))
        else:
            violations.append(f)

    # audit of assumed (abstracted-callee) contracts against the groups that prove them
    audit_out = {"ensures_not_proved": [], "unchained_preconditions": [], "trusted_callees": []}
    try:
        mism, trusted, _n = assume_audit.audit()
        mine = set(spec["groups"])
        for m in mism:
            if m["assumed_in"] not in mine:
                continue
            if m["ensures_missing"]:
                audit_out["ensures_not_proved"].append("%s (assumed in %s, proved in %s): %s" % (m["unit"], m["assumed_in"], m["proved_in"], "; ".join(m["ensures_missing"])[:300]))
            if m["requires_unchecked"]:
                audit_out["unchained_preconditions"].append("%s is entered by contract in %s; its proof in %s additionally requires: %s" % (m["unit"], m["assumed_in"], m["proved_in"], "; ".join(m["requires_unchecked"])[:300]))
        for uid, gs in trusted:
            if set(gs) & mine:
                audit_out["trusted_callees"].append("%s (contract assumed, proved nowhere)" % uid)
        # lemma files a group takes as given (lemmas_assumed_from) must be proved, in this very run, by their owner group
        audit_out["assumed_lemma_files"] = []
        for gname in spec["groups"]:
            g = vlib.load_group(gname)
            for lemf in g.get("lemmas_assumed_from", []):
                owner = g.get("lemmas_owner", {}).get(lemf)
                ok = owner in spec["groups"] and lemf in vlib.load_group(owner)["contracts"] and lemf not in vlib.load_group(owner).get("lemmas_assumed_from", [])
                audit_out["assumed_lemma_files"].append("%s: proof fns of %s assumed (external_body), proved in group %s of the same run%s" % (gname, lemf, owner, "" if ok else " -- NOT PART OF THIS RUN"))
                if not ok:
                    undecided.append("%s assumes the lemmas of %s but their owner group %r is not verified in this run" % (gname, lemf, owner))
    except Exception as e:  # noqa: BLE001
        undecided.append("assumed-contract audit failed: %r" % (e,))
    if audit_out["ensures_not_proved"]:
        undecided.append("an assumed callee contract is stronger than what its owner proves: %s" % audit_out["ensures_not_proved"])
    # an obligation that fails only because of a listed open finding is reported as KNOWN-FINDING and is not part of the
    # claim: it is taken out of the obligations / discharged counts (and named under known_findings_hit)
    kf_obs = set(f["obligation"] for _k, f in known_hits)
    for o in obligations:
        if o["obligation"] in kf_obs:
            o["known_finding"] = True
    obligations = [o for o in obligations if not o.get("known_finding")]
    n_ob = len(obligations)
    n_dis = sum(1 for o in obligations if o.get("discharged"))
    rc = 0
    os.makedirs(os.path.join(vlib.BUILD, "replay"), exist_ok=True)
    lines = []
    for k, f in known_hits:
        lines.append("KNOWN-FINDING: property=%s %s (%s)" % (pid, k.get("what", ""), f["obligation"]))
    if undecided and not violations:
        rc = 2
        for u in undecided:
            lines.append("UNDECIDED property=%s reason=%s" % (pid, u))
    if violations:
        rc = 1
        for i, f in enumerate(violations):
            rp = os.path.join(vlib.BUILD, "replay", "%s_%d.json" % (pid, i))
            unit_items = [x for x in functions if x["id"] == f.get("owner") or x["id"] == f.get("clause_unit")]
            if f.get("failing_input") is not None:
                rep = f.get("replay") or {}
                json.dump({
                    "property": pid,
                    "obligation": f["obligation"],
                    "verifier": "kani 0.68 / cbmc 6.11",
                    "verifier_message": f["message"],
                    "verifier_output": f["rendered"],
                    "failing_input": f["failing_input"],
                    "replay_on_real_code": rep,
                    "how_to_replay": rep.get("cmd") or "python3 run/kani.py (replay crate could not be built; see replay_on_real_code.output)",
                    "note": "Kani counterexample (concrete playback), evaluated against the real altrios-core functions by build/replay_* (same oracle text as the harness)",
                }, open(rp, "w"), indent=1)
                tail = "" if rep.get("confirmed_on_real_code") else " no-failing-input-found"
                lines.append("VIOLATION property=%s replay=%s obligation=%s group=%s%s" % (pid, rp, f["obligation"].replace(" ", "_"), f.get("group", "kani"), tail))
                continue
            json.dump({
                "property": pid,
                "obligation": f["obligation"],
                "verifier": "verus 0.2026.09.13 / z3",
                "verifier_message": f["message"],
                "verifier_output": f["rendered"],
                "provenance": unit_items,
                "failing_input": None,
                "note": "Verus yields no counterexample model; the obligation named here was discharged on the unchanged tree and is refuted/undischarged on this tree. no-failing-input-found",
            }, open(rp, "w"), indent=1)
            lines.append("VIOLATION property=%s replay=%s obligation=%s group=%s no-failing-input-found" % (pid, rp, f["obligation"].replace(" ", "_"), f.get("group", "?")))
        for u in undecided:
            lines.append("UNDECIDED property=%s reason=%s" % (pid, u))
    wall = time.time() - t0
    ev = {
        "property_id": pid,
        "tier": tier,
        "seed": seed,
        "level": "proof",
        "wall_s": round(wall, 2),
        "violations": len(violations),
        "coverage": {
            "obligations": n_ob,
            "discharged": n_dis,
            "checker_cmd": " ; ".join(checker_cmds) or "verus (not run)",
            "trusted_base": spec.get("trusted_base", []) + [
                "A-REAL: f64/uom quantities modelled as mathematical reals (prelude/q_real.rs, every external_body there is an axiom)",
                "vx extractor and its enumerated rewrite rules (counts under rules_fired)",
                "Verus 0.2026.09.13 + vstd specs + bundled Z3",
            ] + (["Kani 0.68 + CBMC 6.11 (IEEE-754 float model of CBMC; prelude/q_f64.rs is executable Rust, no axioms)"] if spec.get("kani") else []),
            "samples": [{"obligation": o["obligation"], "text": o["text"], "discharged": o.get("discharged")} for o in obligations[:6]],
            "functions_under_contract": [f for f in functions if f["under_contract"]],
            "types_extracted": [f["id"] for f in functions if not f["under_contract"]],
            "obligation_table": table,
            "solver_ms": round(solver_ms, 1),
            "groups": groups_out,
            "canaries": canaries,
            "assumption_scan": scan,
            "rules_fired": rules,
            "not_decided": spec.get("not_decided", []),
            "bounded": spec.get("bounded", []),
            "bounded_checks": bounded_checks,
            "kani": kani_out,
            "assumed_contract_audit": audit_out,
            "seeded_fault_regression": selftest,
            "undecided": undecided,
            "known_findings_hit": [k.get("what") for k, _ in known_hits],
            "unstable": unstable,
            "exit_code": rc,
        },
        "assumptions": spec.get("assumptions", []) + ["UNCHAINED: " + x for x in audit_out["unchained_preconditions"]] + ["TRUSTED CALLEE: " + x for x in audit_out["trusted_callees"]],
    }
    json.dump(ev, open(evidence_path, "w"), indent=1)
    for l in lines:
        print(l)
    print("%s tier=%s obligations=%d discharged=%d canaries=%d/%d solver_ms=%.0f wall=%.1fs exit=%d" % (
        pid, tier, n_ob, n_dis, canaries["failed"], canaries["must_fail"], solver_ms, wall, rc))
    return rc


if __name__ == "__main__":
    sys.exit(main())
