#!/usr/bin/env python3
"""kani.py — the Kani side of a property check (loop-free full-domain harnesses = complete proofs;
unwound slice harnesses = bounded stand-ins, labelled). The crate is regenerated on every run from the
functions vx extracts from /repo's current tree, compiled against prelude/q_f64.rs (IEEE semantics)."""
import json, os, re, shutil, struct, subprocess, sys, time
sys.path.insert(0, os.path.dirname(os.path.abspath(__file__)))
import vlib

ROOT = vlib.ROOT


def build_crate(cname):
    cdir = os.path.join(ROOT, "kani", cname)
    spec = json.load(open(os.path.join(cdir, "spec.json")))
    group = vlib.load_group(spec["group"])
    keep = spec["items"]
    byid = {it["id"]: it for it in group["items"]}
    missing = [k for k in keep if k not in byid]
    if missing:
        raise vlib.Undecided("kani spec names items not in group %s: %s" % (spec["group"], missing))
    items = []
    for k in keep:
        it = json.loads(json.dumps(byid[k]))
        ov = spec.get("item_opts", {}).get(k)
        if ov:
            it.setdefault("opts", {}).update(ov)
        items.append(it)
    group = dict(group, items=items)
    group.pop("expand", None)
    out = os.path.join(vlib.BUILD, vlib.SUB, "kani_" + cname)
    os.makedirs(os.path.join(out, "src"), exist_ok=True)
    ex = vlib.extract(group, out)
    parts = [open(os.path.join(ROOT, "prelude", "q_f64.rs")).read()]
    parts.append("// ---- extracted from /repo by vx (same rules as the Verus route)")
    for it in ex:
        parts.append("// from %s:%d-%d sha256=%s" % (it["file"], it["line_start"], it["line_end"], (it.get("sha256") or "")[:16]))
        parts.append(it["ftext"])
    for f in ("env_kani.rs", "oracle.rs", "harness.rs"):
        parts.append("// ---- %s" % f)
        parts.append(open(os.path.join(cdir, f)).read())
    open(os.path.join(out, "src", "lib.rs"), "w").write("\n".join(parts))
    open(os.path.join(out, "Cargo.toml"), "w").write(
        '[package]\nname = "kani_%s"\nversion = "0.1.0"\nedition = "2021"\n[dependencies]\n[workspace]\n[lints.rust]\nunexpected_cfgs = { level = "allow" }\n' % cname)
    return spec, out, ex


def parse_playback(text):
    """byte vectors of the concrete playback test -> list of little-endian byte lists"""
    m = re.search(r"let concrete_vals: Vec<Vec<u8>> = vec!\[(.*?)\];", text, re.S)
    if not m:
        return None
    vals = []
    for v in re.findall(r"vec!\[([0-9, ]*)\]", m.group(1)):
        vals.append([int(x) for x in v.replace(" ", "").split(",") if x != ""])
    return vals


def run_harness(out, name, timeout=900, flags=()):
    env = dict(os.environ, CARGO_NET_OFFLINE="true", CARGO_TARGET_DIR=os.path.join(vlib.BUILD, "kani_target_" + os.path.basename(out)))
    cmd = ["cargo", "kani", "--harness", "harnesses::" + name, "--exact", "-Z", "concrete-playback", "--concrete-playback=print"] + list(flags)
    t0 = time.time()
    try:
        r = subprocess.run(cmd, cwd=out, env=env, capture_output=True, text=True, timeout=timeout)
        txt = r.stdout + "\n" + r.stderr
    except subprocess.TimeoutExpired as e:
        return {"harness": name, "status": "timeout", "s": time.time() - t0, "cmd": " ".join(cmd), "output": str(e)[-2000:]}
    st = "error"
    n_ok, n_bad = txt.count("VERIFICATION:- SUCCESSFUL"), txt.count("VERIFICATION:- FAILED")
    if n_bad >= 1:
        st = "failed"
    elif n_ok == 1:
        st = "ok"
    failed = re.findall(r"Failed Checks: (.*)", txt)
    # anything other than our own assertion failing (unwinding assertion, overflow, OOB) is reported too
    return {"harness": name, "status": st, "s": round(time.time() - t0, 2), "cmd": " ".join(cmd), "failed_checks": failed,
            "playback": parse_playback(txt), "output": txt[-6000:],
            "n_checks": (re.search(r"\*\* (\d+) of (\d+) failed", txt).group(2) if re.search(r"\*\* (\d+) of (\d+) failed", txt) else None)}


def decode_inputs(h, playback):
    """map Kani's concrete byte vectors to the oracle's inputs (harness shape: [n: usize,] v: [f64; arity])"""
    if not playback:
        return None
    vals = list(playback)
    n = None
    if h.get("sliced"):
        n = int.from_bytes(bytes(vals[0]), "little")
        vals = vals[1:]
    raw = b"".join(bytes(v) for v in vals)
    fl = [struct.unpack("<d", raw[i:i + 8])[0] for i in range(0, len(raw) - 7, 8)]
    bits = ["%016x" % struct.unpack("<Q", raw[i:i + 8])[0] for i in range(0, len(raw) - 7, 8)]
    return {"n": n, "f64": [repr(x) for x in fl], "bits": bits}


def replay_real(cname, h, inp, timeout=3600):
    """evaluate the same oracle predicate against the REAL altrios-core (path dependency on the current tree)"""
    cdir = os.path.join(ROOT, "kani", cname)
    out = os.path.join(vlib.BUILD, vlib.SUB, "replay_" + cname)
    os.makedirs(os.path.join(out, "src"), exist_ok=True)
    core = os.path.join(vlib.REPO, "rust", "altrios-core")
    open(os.path.join(out, "Cargo.toml"), "w").write(
        '[package]\nname = "replay_%s"\nversion = "0.1.0"\nedition = "2021"\n[dependencies]\naltrios-core = { path = "%s" }\n[workspace]\n' % (cname, core))
    shutil.copy(os.path.join(vlib.REPO, "rust", "Cargo.lock"), os.path.join(out, "Cargo.lock"))
    spec = json.load(open(os.path.join(cdir, "spec.json")))
    arms = []
    for hn, hh in spec["harnesses"].items():
        if "oracle" not in hh:
            continue
        if hh.get("sliced"):
            arms.append('        "%s" => { let mut a = [0f64; %d]; a.copy_from_slice(&v[..%d]); %s(n, a) }' % (hn, hh["arity"], hh["arity"], hh["oracle"]))
        else:
            arms.append('        "%s" => { let mut a = [0f64; %d]; a.copy_from_slice(&v[..%d]); %s(a) }' % (hn, hh["arity"], hh["arity"], hh["oracle"]))
    main = ("#![allow(dead_code)]\n" + open(os.path.join(cdir, "env_real.rs")).read() + open(os.path.join(cdir, "oracle.rs")).read() + """
fn main() {
    let a: Vec<String> = std::env::args().collect();
    let n: usize = a[2].parse().unwrap();
    let v: Vec<f64> = a[3..].iter().map(|s| f64::from_bits(u64::from_str_radix(s, 16).unwrap())).collect();
    let (got, exp) = match a[1].as_str() {
%s
        _ => panic!("unknown harness"),
    };
    println!("REPLAY harness={} inputs={:?} n={} real_code_result={} expected={} {}", a[1], v, n, got, exp, if got == exp { "AGREES" } else { "VIOLATES" });
    std::process::exit(if got == exp { 0 } else { 1 });
}
""" % "\n".join(arms))
    open(os.path.join(out, "src", "main.rs"), "w").write(main)
    env = dict(os.environ, CARGO_NET_OFFLINE="true", CARGO_TARGET_DIR=os.path.join(vlib.BUILD, "replay_target"))
    b = subprocess.run(["cargo", "build", "--offline"], cwd=out, env=env, capture_output=True, text=True, timeout=timeout)
    if b.returncode != 0:
        return {"built": False, "output": b.stderr[-3000:]}
    exe = os.path.join(vlib.BUILD, "replay_target", "debug", "replay_" + cname)
    r = subprocess.run([exe, h, str(inp["n"] or 0)] + inp["bits"], capture_output=True, text=True, timeout=300)
    return {"built": True, "rc": r.returncode, "output": (r.stdout + r.stderr)[-3000:], "cmd": " ".join([exe, h, str(inp["n"] or 0)] + inp["bits"]),
            "confirmed_on_real_code": r.returncode == 1 and "VIOLATES" in r.stdout}


def run_all(cname, tier="quick", only=None):
    import concurrent.futures as cf
    spec, out, ex = build_crate(cname)
    names = [h for h in spec["harnesses"] if not only or h in only]
    # compile once (first harness), then the rest in parallel on the warm target dir
    res = {}
    first = names[0]
    flags = spec.get("kani_flags", [])
    res[first] = run_harness(out, first, 900, flags)
    with cf.ThreadPoolExecutor(max_workers=8) as pool:
        futs = {pool.submit(run_harness, out, n, 900, flags): n for n in names[1:]}
        for f in cf.as_completed(futs):
            res[futs[f]] = f.result()
    return spec, out, ex, res


if __name__ == "__main__":
    spec, out, ex, res = run_all(sys.argv[1], only=set(sys.argv[2:]))
    for n, r in res.items():
        print(n, r["status"], r["s"], r.get("n_checks"), r.get("failed_checks"))
        if r["status"] not in ("ok",) and spec["harnesses"][n].get("kind") != "canary":
            print(r["output"][-1500:])
            inp = decode_inputs(spec["harnesses"][n], r.get("playback"))
            print(inp)
