#!/usr/bin/env python3
"""import_seed.py <tmp_seed_dir> <name> <caught_by...> — keep a confirmed seeded change under /verif/seeded/<name>/"""
import json, os, shutil, sys, re
sd, name = sys.argv[1], sys.argv[2]
caught = sys.argv[3:]
dst = os.path.join("/verif/seeded", name)
os.makedirs(dst, exist_ok=True)
for f in ("patch.diff", "demo.diff"):
    shutil.copy(os.path.join(sd, f), os.path.join(dst, f))
meta = json.load(open(os.path.join(sd, "meta.json")))
log = open(os.path.join(sd, "confirm.log")).read() if os.path.exists(os.path.join(sd, "confirm.log")) else ""
rc = dict(re.findall(r"^(RC_\w+)=(\d+)", log, re.M))
meta["confirmed_by_me"] = {
    "demo_passes_without_patch": rc.get("RC_DEMO_CLEAN") == "0",
    "demo_fails_with_patch": rc.get("RC_DEMO_PATCHED") not in (None, "0"),
    "suite_passes_with_patch": rc.get("RC_SUITE_PATCHED") == "0" and "102 passed" in log,
    "how": "run/confirm_seed.sh in a scratch worktree /tmp/cf_<id> (removed afterwards)",
}
meta["caught_by"] = caught
meta["source"] = "independent sub-agent given only the property text"
json.dump(meta, open(os.path.join(dst, "meta.json"), "w"), indent=1)
print(name, meta["confirmed_by_me"], caught)
