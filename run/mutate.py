#!/usr/bin/env python3
"""mutate.py <faults.json> [ids...] — seeded-fault self-test.

Each fault is a textual edit of a scratch COPY of /repo's altrios-core sources
(never /repo itself). For every fault the named property check is run against
the copy (VERIF_REPO) and must exit 1 (or the `expect`ed code); the result table is printed.
Also used as a library by check.py's thorough tier (run_fault).
"""
import json, os, shutil, subprocess, sys, tempfile

ROOT = os.path.dirname(os.path.dirname(os.path.abspath(__file__)))
REPO = os.environ.get("VERIF_REPO", "/repo")


def run_fault(f, props=None, tier="quick"):
    """-> list of (prop, rc, obligations, undecided_reason) for one fault, on its own scratch copy (removed afterwards)"""
    tmp = tempfile.mkdtemp(prefix="vxmut_", dir="/tmp")
    out = []
    try:
        dst = os.path.join(tmp, "rust", "altrios-core")
        shutil.copytree(os.path.join(REPO, "rust"), os.path.join(tmp, "rust"), ignore=shutil.ignore_patterns("target"))
        path = os.path.join(dst, f["file"]) if f["file"].startswith("altrios-proc-macros/") else os.path.join(dst, "src", f["file"])
        orig = open(path).read()
        if orig.count(f["old"]) < 1:
            return [(p, "ANCHOR-LOST", "", "") for p in (props or f["props"])]
        open(path, "w").write(orig.replace(f["old"], f["new"]) if f.get("all") else orig.replace(f["old"], f["new"], 1))
        for p in (props or f["props"]):
            env = dict(os.environ, VERIF_REPO=tmp, VERIF_EVIDENCE_DIR=os.path.join(tmp, "evidence"), VERIF_TIER="quick", VERIF_NO_SELFTEST="1", **({"VERIF_NO_REPLAY": "1"} if os.environ.get("VERIF_SELFTEST_FAST") else {}))
            r = subprocess.run([sys.executable, os.path.join(ROOT, "run", "check.py"), p, "--tier", "quick"], capture_output=True, text=True, env=env)
            obl = [l.split("obligation=")[1].split()[0] for l in r.stdout.split("\n") if l.startswith("VIOLATION") and "obligation=" in l]
            und = [l for l in r.stdout.split("\n") if l.startswith("UNDECIDED")]
            out.append((p, r.returncode, ",".join(obl)[:160], (und[0][:200] if und and r.returncode == 2 else "")))
    finally:
        shutil.rmtree(tmp, ignore_errors=True)
    return out


def main():
    faults = json.load(open(sys.argv[1]))
    only = set(sys.argv[2:])
    results = []
    for f in faults:
        if only and f["id"] not in only:
            continue
        row = run_fault(f)
        txt = " | ".join("%s:rc=%s %s %s" % r for r in row)
        results.append((f["id"], txt, f.get("note", "")))
        print(f["id"], "->", txt, flush=True)
    caught = sum(1 for r in results if "rc=1" in r[1])
    print("faults=%d caught=%d" % (len(results), caught))


if __name__ == "__main__":
    main()
