#!/usr/bin/env python3
"""mutate.py <faults.json> [ids...] — seeded-fault self-test.

Each fault is a textual edit of a scratch COPY of /repo's altrios-core sources
(never /repo itself). For every fault the named property check is run against
the copy (VERIF_REPO) and must exit 1; the result table is printed.
"""
import json, os, shutil, subprocess, sys, tempfile

ROOT = os.path.dirname(os.path.dirname(os.path.abspath(__file__)))
REPO = "/repo"

def main():
    faults = json.load(open(sys.argv[1]))
    only = set(sys.argv[2:])
    tmp = tempfile.mkdtemp(prefix="vxmut_", dir="/tmp")
    dst = os.path.join(tmp, "rust", "altrios-core")
    shutil.copytree(os.path.join(REPO, "rust"), os.path.join(tmp, "rust"), ignore=shutil.ignore_patterns("target"))
    results = []
    try:
        for f in faults:
            if only and f["id"] not in only:
                continue
            path = os.path.join(dst, f["file"]) if f["file"].startswith("altrios-proc-macros/") else os.path.join(dst, "src", f["file"])
            orig = open(path).read()
            if orig.count(f["old"]) < 1:
                results.append((f["id"], "ANCHOR-LOST", ""))
                continue
            mutated = orig.replace(f["old"], f["new"], 1)
            open(path, "w").write(mutated)
            row = []
            for p in f["props"]:
                env = dict(os.environ, VERIF_REPO=tmp, VERIF_EVIDENCE_DIR=os.path.join(tmp, "evidence"))
                r = subprocess.run([sys.executable, os.path.join(ROOT, "run", "check.py"), p], capture_output=True, text=True, env=env)
                obl = [l.split("obligation=")[1].split()[0] for l in r.stdout.split("\n") if l.startswith("VIOLATION") and "obligation=" in l]
                und = [l for l in r.stdout.split("\n") if l.startswith("UNDECIDED")]
                row.append("%s:rc=%d %s %s" % (p, r.returncode, ",".join(obl)[:160], (und[0][:200] if und and r.returncode == 2 else "")))
            open(path, "w").write(orig)
            results.append((f["id"], " | ".join(row), f.get("note", "")))
            print(f["id"], "->", " | ".join(row), flush=True)
    finally:
        shutil.rmtree(tmp, ignore_errors=True)
    caught = sum(1 for r in results if "rc=1" in r[1])
    print("faults=%d caught=%d" % (len(results), caught))

if __name__ == "__main__":
    main()
