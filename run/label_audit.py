#!/usr/bin/env python3
"""label_audit.py [group...] — report, per group, callee units whose contract a P-labelled clause of a caller leans on
although no clause of the callee names P (modular verification localises a failure in the callee: without the label the
failure is reported for other properties only; check.py's callee rule then answers exit 2 for P instead of exit 1)."""
import json, os, re, sys
sys.path.insert(0, os.path.dirname(os.path.abspath(__file__)))
import vlib
ROOT = os.path.dirname(os.path.dirname(os.path.abspath(__file__)))
vlib.SUB = "audit"
groups = sys.argv[1:] or sorted(f[:-5] for f in os.listdir(os.path.join(ROOT, "groups")) if f.endswith(".json"))
for g in groups:
    try:
        b = vlib.build_group(g)
    except vlib.Undecided as e:
        print(g, "UNDECIDED", e); continue
    a = b["main"]
    def nm(u): return u.split("/")[0].split("::")[-1].replace("fn ", "").strip()
    for uid, u in sorted(a.units.items()):
        lo, hi = u["range"]
        body = "\n".join(a.lines[lo:hi])
        pu = set(u.get("props") or [])
        for vid, v in sorted(a.units.items()):
            if vid == uid or vid.split("/")[0] == uid.split("/")[0]: continue
            n = nm(vid)
            if not re.match(r"^[A-Za-z_]\w*$", n): continue
            if re.search(r"(?:\.|::)%s\s*\(" % re.escape(n), body) or re.search(r"(?<![\w.:])%s\s*\(" % re.escape(n), body):
                pv = set(v.get("props") or [])
                gap = sorted(p for p in pu - pv if p != "*")
                if gap and "*" not in pv:
                    print("%s: %s (%s) calls %s (%s): callee lacks %s" % (g, uid, ",".join(sorted(pu)), vid, ",".join(sorted(pv)), ",".join(gap)))
