#!/bin/bash
# confirm_seed.sh <seed_dir>: independent confirmation of a seeded change in a scratch worktree
# (never in /repo): demo passes without the patch, suite passes with it, demo fails with it.
set -u
SD=$1
ID=$(basename $SD)
WT=/tmp/cf_$ID
LOG=$SD/confirm.log
: > $LOG
git -C /repo worktree add --detach $WT HEAD >>$LOG 2>&1 || exit 2
cp -r /repo/rust/target $WT/rust/target
DEMO=$(python3 -c "import json;print(json.load(open('$SD/meta.json'))['demo_cmd'])")
cd $WT
git apply $SD/demo.diff >>$LOG 2>&1 || { echo "demo.diff does not apply" >>$LOG; }
echo "=== demo without patch: $DEMO" >>$LOG
( cd $WT && eval "$DEMO" ) >>$LOG 2>&1; echo "RC_DEMO_CLEAN=$?" >>$LOG
git apply $SD/patch.diff >>$LOG 2>&1 || { echo "patch.diff does not apply" >>$LOG; }
echo "=== demo with patch" >>$LOG
( cd $WT && eval "$DEMO" ) >>$LOG 2>&1; echo "RC_DEMO_PATCHED=$?" >>$LOG
git checkout -- . ; git clean -fdq -e rust/target; git apply $SD/patch.diff
echo "=== suite with patch" >>$LOG
( cd $WT/rust && cargo test --workspace --no-fail-fast --offline 2>&1 | grep -E "^test result|FAILED|failed" ) >>$LOG 2>&1; echo "RC_SUITE_PATCHED=${PIPESTATUS[0]}" >>$LOG
cd /
rm -rf $WT/rust/target
git -C /repo worktree remove --force $WT
grep -E "^RC_|^test result" $LOG
