#!/usr/bin/env python3
"""vlib — extract -> assemble -> verus -> map diagnostics to named obligations.

Exit-code policy (DESIGN.md 2.3): 0 all discharged, 1 a named obligation of the
property failed semantically, 2 undecided (tool limit, lost anchor, unsupported
construct, rlimit, front-end error). Nothing here ever edits /repo.
"""
import hashlib
import json
import os
import re
import shutil
import subprocess
import sys
import time

ROOT = os.path.dirname(os.path.dirname(os.path.abspath(__file__)))
REPO = os.environ.get("VERIF_REPO", "/repo")
SRC = os.path.join(REPO, "rust", "altrios-core", "src")
VX = os.path.join(ROOT, "vx", "target", "release", "vx")
# Build outputs never mix source roots and never mix concurrently running checks: /repo builds under /verif/build, a scratch
# copy (VERIF_REPO) builds inside itself (and disappears with it); each property check works in its own sub-directory SUB.
BUILD = os.environ.get("VERIF_BUILD") or (os.path.join(ROOT, "build") if os.path.realpath(REPO) == "/repo" else os.path.join(REPO, "vx_build"))
SUB = os.environ.get("VERIF_BUILD_SUB", "dev")

SEMANTIC = [
    "postcondition not satisfied",
    "precondition not satisfied",
    "invariant not satisfied",
    "assertion failed",
    "possible arithmetic underflow/overflow",
    "possible division by zero",
    "decreases not satisfied",
    "possible bit shift underflow/overflow",
    "loop invariant not satisfied",
    "recommendation not met",
    "unreachable",
    "index out of bounds",
    "failed this",
]
RESOURCE = ["rlimit", "Resource limit", "timed out", "timeout", "resource limit"]


class Undecided(Exception):
    pass


def sh(cmd, **kw):
    return subprocess.run(cmd, capture_output=True, text=True, **kw)


def ensure_vx():
    if os.path.exists(VX):
        src_m = max(os.path.getmtime(os.path.join(ROOT, "vx", "src", f)) for f in os.listdir(os.path.join(ROOT, "vx", "src")))
        if os.path.getmtime(VX) >= src_m:
            return
    env = dict(os.environ, CARGO_NET_OFFLINE="true")
    r = sh(["cargo", "build", "--release", "--offline"], cwd=os.path.join(ROOT, "vx"), env=env)
    if r.returncode != 0:
        raise Undecided("vx build failed: " + r.stderr[-2000:])


# ---------------------------------------------------------------------------
# contract files

class Clause:
    def __init__(self, label, props, text, kind):
        self.label = label
        self.props = props
        self.text = text
        self.kind = kind  # requires | ensures


class UnitContract:
    def __init__(self, uid):
        self.id = uid
        self.ret = "res"
        self.requires = []
        self.ensures = []
        self.at = {}      # event -> (props, text)
        self.loops = {}   # key -> (props, text)
        self.safety = None
        self.canary = "auto"
        self.attrs = []


def parse_props(s):
    s = s.strip()
    if not s:
        return []
    return [p.strip() for p in s.split(",") if p.strip()]


def parse_contract(path):
    pre = []
    units = {}
    cur = None
    section = "preamble"
    sect_arg = None
    buf = []
    cur_clause = None

    def flush():
        nonlocal buf, cur_clause
        text = "\n".join(buf).rstrip()
        if section == "preamble":
            pre.extend(buf)
        elif cur is not None:
            if section in ("requires", "ensures"):
                if cur_clause is not None:
                    lab, props = cur_clause
                    t = text.strip()
                    if t:
                        if not t.endswith(","):
                            t += ","
                        getattr(cur, section).append(Clause(lab, props, t, section))
                elif text.strip():
                    # unlabeled clause block
                    t = text.strip()
                    if not t.endswith(","):
                        t += ","
                    n = len(getattr(cur, section)) + 1
                    getattr(cur, section).append(Clause("%s%d" % (section[:3], n), [], t, section))
            elif section == "at":
                ev, props = sect_arg
                # split into sub-blocks: top-level `let ghost ..;` declarations are kept apart from proof
                # blocks so that a proof hint can be dropped without losing the ghost names later hints use
                depth = 0
                runs = []
                for ln in text.split("\n"):
                    is_decl = depth == 0 and ln.strip().startswith("let ghost")
                    kind = "decl" if is_decl else "proof"
                    if runs and runs[-1][0] == kind:
                        runs[-1][1].append(ln)
                    else:
                        runs.append((kind, [ln]))
                    depth += ln.count("{") - ln.count("}")
                for kind, lns in runs:
                    t = "\n".join(lns)
                    if t.strip():
                        cur.at.setdefault(ev, []).append((props, t))
            elif section == "loop":
                key, props = sect_arg
                cur.loops[key] = (props, text)
        buf = []
        cur_clause = None

    for raw in open(path).read().split("\n"):
        m = re.match(r"^\s*//!\s*(\w+)\s*(.*)$", raw)
        if m:
            kw, arg = m.group(1), m.group(2).strip()
            if kw == "unit":
                flush()
                cur = units.get(arg) or UnitContract(arg)
                units[arg] = cur
                section = "none"
                continue
            if kw == "preamble":
                flush()
                cur = None
                section = "preamble"
                continue
            if kw == "end":
                flush()
                cur = None
                section = "preamble"
                continue
            if cur is None:
                raise Undecided("contract %s: directive outside unit: %s" % (path, raw))
            flush()
            if kw == "ret":
                cur.ret = arg
                section = "none"
            elif kw in ("requires", "ensures"):
                section = kw
            elif kw == "at":
                mm = re.match(r"^(.*?)(?:\s*:\s*([A-Z0-9, ]+))?$", arg)
                section = "at"
                sect_arg = (mm.group(1).strip(), parse_props(mm.group(2) or ""))
            elif kw == "loop":
                mm = re.match(r"^(\S+)(?:\s*:\s*([A-Z0-9, ]+))?$", arg)
                section = "loop"
                sect_arg = (mm.group(1).strip(), parse_props(mm.group(2) or ""))
            elif kw == "safety":
                cur.safety = parse_props(arg.lstrip(":"))
                section = "none"
            elif kw == "canary":
                cur.canary = arg
                section = "none"
            elif kw == "attr":
                cur.attrs.append(arg)
                section = "none"
            else:
                raise Undecided("contract %s: unknown directive %s" % (path, kw))
            continue
        m = re.match(r"^\s*//#\s*([\w.\-@:]+)\s*(?::\s*([A-Z0-9, ]+))?\s*$", raw)
        if m and section in ("requires", "ensures"):
            flush()
            cur_clause = (m.group(1), parse_props(m.group(2) or ""))
            continue
        buf.append(raw)
    flush()
    return "\n".join(pre), units


# ---------------------------------------------------------------------------
# assembling

def find_matching(s, i, open_c, close_c):
    depth = 0
    n = len(s)
    while i < n:
        c = s[i]
        if c == open_c:
            depth += 1
        elif c == close_c:
            depth -= 1
            if depth == 0:
                return i
        i += 1
    return -1


def rustfmt(text):
    p = subprocess.run(["rustfmt", "--edition", "2021", "--config", "max_width=110"], input=text, capture_output=True, text=True)
    if p.returncode != 0:
        raise Undecided("rustfmt failed: " + p.stderr[:1500])
    return p.stdout


class Assembled:
    def __init__(self):
        self.lines = []
        self.map = []  # (start, end, unit, kind, label, props)  1-based inclusive
        self.units = {}  # unit id -> dict(fnname, range)
        self.canary_ranges = []

    def add(self, text, unit=None, kind=None, label=None, props=None):
        start = len(self.lines) + 1
        ls = text.split("\n")
        self.lines.extend(ls)
        end = len(self.lines)
        if kind is not None:
            self.map.append((start, end, unit, kind, label, props or []))
        return start, end

    def text(self):
        return "\n".join(self.lines) + "\n"

    def lookup(self, line):
        """most specific map entries containing line"""
        hits = [m for m in self.map if m[0] <= line <= m[1]]
        hits.sort(key=lambda m: (m[1] - m[0]))
        return hits


def splice_fn(a, item, uc, group_props, canary=False, drop_hints=()):
    """item: vx output (formatted text); uc: UnitContract or None. Emits into Assembled a."""
    text = item["ftext"]
    uid = item["id"]
    marker = 'vx_contract!("%s");' % uid
    pos = text.find(marker)
    if pos < 0:
        raise Undecided("contract marker lost in %s" % uid)
    brace = text.rfind("{", 0, pos)
    head = text[:brace]
    body = text[pos + len(marker):]
    # head: optional `impl T {` + signature
    fnpos = head.rfind("fn ")
    sig_pre = head[:fnpos]
    sig = head[fnpos:]
    po = sig.find("(")
    pc = find_matching(sig, po, "(", ")")
    params = sig[:pc + 1]
    rest = sig[pc + 1:].strip()
    ret = None
    where = None
    m_where = re.search(r"(^|\s)where\s", rest)
    if m_where:
        where = rest[m_where.start():].strip()
        rest = rest[:m_where.start()].strip()
    if rest.startswith("->"):
        ret = rest[2:].strip()
    unit_safety = None
    all_props = set()
    if uc:
        for c in uc.ensures + uc.requires:
            all_props.update(c.props)
        for k, (p, _) in list(uc.loops.items()):
            all_props.update(p)
        for k, lst in uc.at.items():
            for (p, _) in lst:
                all_props.update(p)
        # a unit none of whose clauses names a property (a getter, a helper) supports EVERY property that runs this group:
        # callers' proofs use its contract, so its failure must never be invisible ("*" = all properties of the run)
        unit_safety = uc.safety if uc.safety is not None else (sorted(all_props) or ["*"])
    else:
        unit_safety = ["*"]
    fnname = re.match(r"fn\s+(\w+)", sig).group(1)
    if canary:
        params = params.replace("fn " + fnname, "fn " + fnname + "__canary", 1)
    sp = sig_pre.rstrip()
    if sp.endswith("pub"):
        sig_pre = sp[:-3]
        params = "pub " + params
    ustart = len(a.lines) + 1
    attrs = "".join("    #[%s]\n" % x for x in (uc.attrs if uc else []))
    if item.get("assume"):
        attrs += "    #[verifier::external_body]\n"
    a.add(sig_pre.rstrip("\n").rstrip(" ") if sig_pre.strip() else "")
    a.add(attrs.rstrip("\n")) if attrs else None
    if ret is not None:
        rn = uc.ret if uc else "res"
        a.add("%s -> (%s: %s)" % (params, rn, ret))
    else:
        a.add(params)
    if where:
        a.add("    " + where.rstrip().rstrip(",") + ",")
    if uc and uc.requires:
        a.add("    requires")
        for c in uc.requires:
            a.add("        " + c.text, uid, "requires", c.label, c.props or unit_safety)
    if uc and (uc.ensures or canary):
        a.add("    ensures")
        for c in uc.ensures:
            a.add("        " + c.text, uid, "ensures", c.label, c.props or unit_safety)
    if canary:
        if not (uc and uc.ensures):
            a.add("    ensures")
        is_result = ret is not None and ("AResult" in ret or ret.startswith("Result"))
        rn = uc.ret if uc else "res"
        if uc and uc.canary not in ("auto", "none"):
            a.add("        " + uc.canary + ",", uid, "canary", "canary", [])
        elif is_result:
            a.add("        %s is Ok ==> false," % rn, uid, "canary", "canary", [])
        else:
            a.add("        false,", uid, "canary", "canary", [])
    if item.get("assume"):
        # abstracted callee: the contract (same text as where it is proved) is ASSUMED here
        a.add("{ unimplemented!() }")
        if sig_pre.strip().startswith("impl"):
            a.add("}")
        uend = len(a.lines)
        a.map.append((ustart, uend, uid, "assumed", "assumed", []))
        a.assumed = getattr(a, "assumed", []) + [uid]
        return
    a.add("{")
    # body: process markers line by line
    used_at = set()
    used_loops = set()
    blines = body.split("\n")
    out = []  # (text, kind, label, props)
    i = 0
    while i < len(blines):
        ln = blines[i]
        m = re.match(r'^\s*vx_at!\("([^"]+)"\);\s*$', ln)
        if m:
            ev = m.group(1)
            if uc and ev in uc.at:
                used_at.add(ev)
                for hk, (props, t) in enumerate(uc.at[ev]):
                    lab = "%s/%d" % (ev, hk + 1)
                    if (uid, lab) not in drop_hints:
                        out.append((t, "at", lab, props or unit_safety))
            i += 1
            continue
        m = re.match(r'^\s*vx_loop!\(\s*"([^"]+)"(?:\s*,\s*"([^"]*)")?(?:\s*,\s*"([^"]*)")?\s*,?\s*\);\s*$', ln)
        if m:
            key, lenx, idx = m.group(1), m.group(2), m.group(3)
            # move invariants in front of the `{` that ends the previous emitted line
            j = len(out) - 1
            while j >= 0 and not out[j][0].strip():
                j -= 1
            prev = out[j][0]
            if not prev.rstrip().endswith("{"):
                raise Undecided("loop marker %s in %s not directly after `{`" % (key, uid))
            out[j] = (prev.rstrip()[:-1].rstrip(), out[j][1], out[j][2], out[j][3])
            if uc and key in uc.loops:
                props, t = uc.loops[key]
                used_loops.add(key)
                out.append((t, "loop", key, props or unit_safety))
            elif key.startswith("iter:") and lenx and idx:
                if idx.startswith("w:"):
                    idx = idx[2:]
                    out.append(("    invariant %s == 0 || %s + 1 <= %s.len(),\n    decreases %s.len() - %s," % (idx, idx, lenx, lenx, idx), "loop", key, unit_safety))
                else:
                    out.append(("    invariant %s <= %s.len(),\n    decreases %s.len() - %s," % (idx, lenx, lenx, idx), "loop", key, unit_safety))
            else:
                raise Undecided("no loop contract for %s in %s" % (key, uid))
            out.append(("{", None, None, None))
            # hints at the start of the loop body: event `body <loop key>` (iterator-generated loops have no other anchor there)
            ev = "body " + key
            if uc and ev in uc.at and not any(re.match(r'^\s*vx_at!\("%s"\);' % re.escape(ev), x) for x in blines):
                used_at.add(ev)
                for hk, (props, t) in enumerate(uc.at[ev]):
                    lab = "%s/%d" % (ev, hk + 1)
                    if (uid, lab) not in drop_hints:
                        out.append((t, "at", lab, props or unit_safety))
            i += 1
            continue
        if "vx_at!" in ln or "vx_loop!" in ln or "vx_contract!" in ln:
            # a multi-line marker (rustfmt wrapped it): join until ');'
            j = i
            joined = ln
            while ");" not in joined and j + 1 < len(blines):
                j += 1
                joined += " " + blines[j].strip()
            blines[i:j + 1] = [joined]
            if joined == ln:
                raise Undecided("unparsed marker line in %s: %s" % (uid, ln.strip()))
            continue
        out.append((ln, None, None, None))
        i += 1
    if uc:
        missing = [e for e in uc.at if e not in used_at] + [k for k in uc.loops if k not in used_loops]
        if missing:
            raise Undecided("contract of %s refers to events not in the extracted body (structure changed): %s" % (uid, missing))
    for t, kind, label, props in out:
        a.add(t, uid if kind else None, kind, label, props)
    uend = len(a.lines)
    a.map.append((ustart, uend, uid, "unit", "safety", unit_safety))
    if canary:
        a.canary_ranges.append((ustart, uend))
    qual = (item.get("impl_of") + "::" if item.get("impl_of") and not item.get("free_fn") else "") + fnname + ("__canary" if canary else "")
    a.units[uid + ("#canary" if canary else "")] = {"fn": qual, "range": (ustart, uend), "props": sorted(all_props), "safety": unit_safety}


HEADER = """#![allow(unused_imports, unused_variables, unused_mut, unused_assignments, dead_code, unused_parens, unreachable_code, unused_braces, non_snake_case)]
use vstd::prelude::*;
use vstd::std_specs::ops::*;
use vstd::std_specs::cmp::*;
verus! {
"""
FOOTER = """
} // verus!
fn main() {}
"""


def load_group(name):
    g = json.load(open(os.path.join(ROOT, "groups", name + ".json")))
    g["name"] = name
    return g


def expand_derives(group, workdir):
    """R-DERIVE: run the REAL altrios proc macros (built from the current tree) on the real struct items and
    return the path of the expansion; step/save_state/push/len bodies are then extracted from it by vx."""
    ensure_vx()
    # the proc macros are built from THIS source root. /repo uses the target dir prepared by MANIFEST.setup_cmd; a scratch
    # copy (VERIF_REPO) builds inside itself, so that nothing stale is ever shared and it disappears with the copy.
    # The artifact is taken from cargo's own JSON report (never the uplifted debug/*.so, which cargo does not refresh for
    # a unit it considers fresh).
    tdir = os.path.join(BUILD, "pm_target")
    # cargo's freshness test for a path package is mtime-based and relative to the package root: an artifact built from
    # OTHER sources with the same layout can look fresh. A content stamp of the macro sources decides instead.
    pm_src = os.path.join(REPO, "rust", "altrios-core", "altrios-proc-macros")
    hsh = hashlib.sha256()
    for root, _dirs, files in sorted(os.walk(pm_src)):
        if os.sep + "target" in root:
            continue
        for fn in sorted(files):
            fp = os.path.join(root, fn)
            hsh.update(fp[len(pm_src):].encode())
            hsh.update(open(fp, "rb").read())
    stamp = os.path.join(tdir, ".vx_pm_stamp")
    want = hsh.hexdigest()
    have = open(stamp).read().strip() if os.path.exists(stamp) else None
    if have != want:
        import glob
        for pat in ("debug/.fingerprint/altrios-proc-macros-*", "debug/deps/*altrios_proc_macros*", "debug/libaltrios_proc_macros*"):
            for x in glob.glob(os.path.join(tdir, pat)):
                if os.path.isdir(x):
                    shutil.rmtree(x, ignore_errors=True)
                else:
                    try:
                        os.remove(x)
                    except OSError:
                        pass
    env = dict(os.environ, CARGO_NET_OFFLINE="true", CARGO_TARGET_DIR=tdir)
    r = sh(["cargo", "build", "-p", "altrios-proc-macros", "--offline", "--message-format=json", "--manifest-path", os.path.join(REPO, "rust", "Cargo.toml")], env=env)
    if r.returncode != 0:
        raise Undecided("building altrios-proc-macros failed: " + r.stderr[-1500:])
    so = None
    for ln in r.stdout.split("\n"):
        if ln.startswith("{") and '"compiler-artifact"' in ln:
            try:
                d = json.loads(ln)
            except Exception:
                continue
            if d.get("target", {}).get("name") == "altrios_proc_macros" or d.get("target", {}).get("name") == "altrios-proc-macros":
                for fn in d.get("filenames", []):
                    if fn.endswith(".so"):
                        so = fn
    if so is None or not os.path.exists(so):
        raise Undecided("altrios-proc-macros artifact not reported by cargo")
    os.makedirs(tdir, exist_ok=True)
    open(stamp, "w").write(want)
    plan = {"src_root": SRC, "items": [{"id": "raw " + x["name"], "file": x["file"], "kind": "struct_raw", "name": x["name"]} for x in group["expand"]]}
    pp = os.path.join(workdir, "plan_raw.json")
    json.dump(plan, open(pp, "w"), indent=1)
    r = sh([VX, pp])
    if r.returncode != 0:
        raise Undecided("vx (struct_raw) failed: " + r.stderr[-1500:])
    items = json.loads(r.stdout)
    bad = [(i["id"], i["error"]) for i in items if not i["ok"]]
    if bad:
        raise Undecided("derive input extraction failed: %s" % bad)
    probe = os.path.join(workdir, "derive_probe.rs")
    open(probe, "w").write("use altrios_proc_macros::*;\n" + "\n".join(i["text"] for i in items) + "\n")
    exp = os.path.join(workdir, "expanded.rs")
    env2 = dict(os.environ, RUSTC_BOOTSTRAP="1")
    r = subprocess.run(["rustc", "--edition", "2021", "-Zunpretty=expanded", "--extern", "altrios_proc_macros=" + so, probe], capture_output=True, text=True, env=env2, cwd=workdir)
    if not r.stdout.strip() or "impl " not in r.stdout:
        raise Undecided("derive expansion produced nothing: " + r.stderr[-800:])
    open(exp, "w").write(r.stdout)
    return exp


def extract(group, workdir):
    ensure_vx()
    exp = None
    if group.get("expand"):
        exp = expand_derives(group, workdir)
        for it in group["items"]:
            if it.get("file") == "@expanded":
                it["file"] = exp
    plan = {
        "src_root": SRC,
        "uc_file": "uc.rs",
        "global": group.get("global", {}),
        "items": [{k: v for k, v in it.items() if k in ("id", "file", "kind", "self_ty", "trait", "name", "opts")} for it in group["items"]],
    }
    pp = os.path.join(workdir, "plan.json")
    json.dump(plan, open(pp, "w"), indent=1)
    r = sh([VX, pp])
    if r.returncode != 0:
        raise Undecided("vx failed: " + r.stderr[-1500:])
    items = json.loads(r.stdout)
    assumed_ids = set(it["id"] for it in group["items"] if it.get("assume"))
    # an assumed item contributes only its signature: rewrite problems inside its body do not matter
    bad = [(i["id"], i["error"]) for i in items if not i["ok"] and not (i["id"] in assumed_ids and i["text"].strip())]
    if bad:
        raise Undecided("extraction failed (unsupported construct or lost anchor): %s" % bad)
    # format all at once, separated by sentinel comments
    SEP = "\n// ===VXSEP===\n"
    for i in items:
        if "// ===VXEXTRA===" in i["text"]:
            i["text"], i["extra_spec"] = i["text"].split("// ===VXEXTRA===", 1)
    joined = SEP.join(i["text"] for i in items)
    f = rustfmt(joined)
    parts = f.split("// ===VXSEP===")
    if len(parts) != len(items):
        raise Undecided("rustfmt lost separators")
    for it, p, gi in zip(items, parts, group["items"]):
        it["ftext"] = p.strip("\n") + "\n"
        it["props"] = gi.get("props", [])
        it["assume"] = bool(gi.get("assume"))
        # provenance hash of the original source lines
        try:
            fpath = it["file"] if it["file"].startswith("/") else os.path.join(SRC, it["file"])
            src_lines = open(fpath).read().split("\n")[it["line_start"] - 1:it["line_end"]]
            it["sha256"] = hashlib.sha256("\n".join(src_lines).encode()).hexdigest()
        except Exception:
            it["sha256"] = None
    return items


def assemble(group, items, units, preamble, canary=False, drop_hints=()):
    a = Assembled()
    a.add(HEADER.rstrip("\n"))
    for p in group.get("prelude", ["prelude/q_real.rs"]):
        a.add("// ---- %s" % p)
        a.add(open(os.path.join(ROOT, p)).read().rstrip("\n"), p, "prelude", p, [])
    a.add("// ---- extracted types")
    for it in items:
        if it["ftext"].lstrip().startswith(("#[derive", "pub struct", "pub enum", "pub type")) and "vx_contract!" not in it["ftext"]:
            a.add("// from %s:%d-%d" % (it["file"], it["line_start"], it["line_end"]))
            a.add(it["ftext"].rstrip("\n"), it["id"], "type", it["id"], [])
            if it.get("extra_spec"):
                a.add("// generated column spec (mechanical, from the struct's field list)")
                a.add(it["extra_spec"].strip())
    a.add("// ---- contract preamble (specs, lemmas, abstracted callees)")
    a.add(preamble, "preamble", "preamble", "preamble", [])
    a.add("// ---- extracted functions with spliced contracts")
    group_props = group.get("props", [])
    modk = 0
    for it in items:
        if "vx_contract!" not in it["ftext"]:
            continue
        uc = units.get(it["id"])
        a.add("// from %s:%d-%d sha256=%s" % (it["file"], it["line_start"], it["line_end"], (it.get("sha256") or "")[:16]))
        # one module per unit: Verus verifies modules in parallel
        modk += 1
        a.add("} // verus!\npub mod vxm_%d { use super::*; verus! {" % modk)
        # in the canary file the regular units are not proved again: they appear as contract-only (external_body) items,
        # only the __canary duplicates carry bodies
        splice_fn(a, dict(it, assume=True) if canary else it, uc, group_props, drop_hints=drop_hints)
        a.add("} } pub use vxm_%d::*;\nverus! {" % modk)
    if canary:
        a.add("// ---- vacuity canaries: each must FAIL")
        for it in items:
            if "vx_contract!" not in it["ftext"]:
                continue
            uc = units.get(it["id"])
            if uc is None or uc.canary == "none" or it.get("assume"):
                continue
            modk += 1
            a.add("} // verus!\npub mod vxm_%d { use super::*; verus! {" % modk)
            splice_fn(a, it, uc, group_props, canary=True)
            a.add("} } pub use vxm_%d::*;\nverus! {" % modk)
    missing = [u for u in units if u not in [i["id"] for i in items]]
    if missing:
        raise Undecided("contracts for units not in the plan: %s" % missing)
    a.add(FOOTER.strip("\n"))
    return a


def run_verus(path, multiple_errors=20, rlimit=None, extra=None, timeout=900):
    cmd = ["verus", path, "--output-json", "--time", "--error-format=json", "--triggers-mode", "silent",
           "--multiple-errors", str(multiple_errors), "--num-threads", "12"]
    if rlimit:
        cmd += ["--rlimit", str(rlimit)]
    if extra:
        cmd += extra
    t0 = time.time()
    # own process group: on timeout the whole tree (verus -> rust_verify -> z3) is killed, nothing is left running
    import signal
    p = subprocess.Popen(cmd, stdout=subprocess.PIPE, stderr=subprocess.PIPE, text=True, cwd=os.path.dirname(path), start_new_session=True)
    try:
        so, se = p.communicate(timeout=timeout)
    except subprocess.TimeoutExpired:
        try:
            os.killpg(p.pid, signal.SIGKILL)
        except ProcessLookupError:
            pass
        p.communicate()
        raise Undecided("verus timed out after %ds on %s" % (timeout, path))

    class _R:
        pass
    r = _R()
    r.stdout, r.stderr, r.returncode = so, se, p.returncode
    wall = time.time() - t0
    try:
        out = json.loads(r.stdout)
    except Exception:
        out = None
    diags = []
    raw = []
    for l in r.stderr.split("\n"):
        l = l.strip()
        if l.startswith("{"):
            try:
                diags.append(json.loads(l))
                continue
            except Exception:
                pass
        if l:
            raw.append(l)
    return {"cmd": " ".join(cmd), "rc": r.returncode, "out": out, "diags": diags, "raw": raw, "wall": wall}


def classify(d):
    msg = d.get("message", "")
    if d.get("level") != "error":
        return "note"
    if msg.startswith("aborting due to"):
        return "note"
    for r in RESOURCE:
        if r in msg:
            return "resource"
    for s in SEMANTIC:
        if s in msg:
            return "semantic"
    return "frontend"


def analyse(a, res):
    """returns dict(failures=[...], undecided=[...], fn_results={name: {...}})"""
    failures = []
    undecided = []
    if res["out"] is None:
        undecided.append("verus produced no JSON: " + " | ".join(res["raw"][-5:]))
        return {"failures": failures, "undecided": undecided, "fns": {}}
    fns = {}
    try:
        for m in res["out"]["times-ms"]["smt"]["smt-run-module-times"]:
            for f in m.get("function-breakdown", []):
                name = f["function"].split("::", 1)[1] if "::" in f["function"] else f["function"]
                name = re.sub(r"^vxm_\d+::", "", name)
                fns[name] = {"success": f["success"], "ms": f["time-micros"] / 1000.0, "rlimit": f["rlimit"]}
    except Exception as e:
        undecided.append("cannot read function breakdown: %r" % e)
    for d in res["diags"]:
        k = classify(d)
        if k == "note":
            continue
        spans = d.get("spans", [])
        prim = [s for s in spans if s.get("is_primary")]
        pline = prim[0]["line_start"] if prim else None
        if k == "frontend":
            # a compile error INSIDE a proof hint (e.g. the hint names a local that is not in scope any more because the
            # code around its anchor changed) is a broken hint, not a broken extraction: reported as a droppable hint failure
            hint = None
            if pline is not None:
                for h in a.lookup(pline):
                    if h[3] == "at":
                        hint = h
                        break
            if hint is not None:
                failures.append({"message": d.get("message"), "line": pline, "owner": hint[2], "owner_kind": "unit", "clause_unit": hint[2],
                                 "clause_kind": "at", "clause": hint[4], "props": hint[5], "rendered": d.get("rendered", "")[:3000],
                                 "obligation": "%s/hint at %s" % (hint[2], hint[4]), "frontend_in_hint": True})
                continue
            undecided.append("verus front-end error: %s (line %s)" % (d.get("message"), pline))
            continue
        if k == "resource":
            if pline is not None and any(lo <= pline <= hi for lo, hi in a.canary_ranges):
                continue  # a canary that runs out of resources has not been proved: that is a failed canary
            undecided.append("resource limit: %s (line %s)" % (d.get("message"), pline))
            continue
        # semantic failure: find owner unit (primary span) and named clause (any span)
        owner = None
        if pline is not None:
            for h in a.lookup(pline):
                if h[3] == "unit":
                    owner = h
                    break
        clause = None
        for s in spans:
            for h in a.lookup(s["line_start"]):
                if h[3] in ("ensures", "requires", "loop", "at", "canary"):
                    if clause is None or (h[3] in ("ensures", "canary")):
                        clause = h
                    break
        where = a.lookup(pline)[0] if pline and a.lookup(pline) else None
        rec = {
            "message": d.get("message"),
            "line": pline,
            "owner": owner[2] if owner else (where[2] if where else None),
            "owner_kind": owner[3] if owner else (where[3] if where else None),
            "clause_unit": clause[2] if clause else None,
            "clause_kind": clause[3] if clause else None,
            "clause": clause[4] if clause else None,
            "props": None,
            "rendered": d.get("rendered", "")[:3000],
        }
        msg = d.get("message", "")
        if clause and clause[3] in ("ensures", "canary") and "postcondition" in msg:
            rec["obligation"] = "%s/%s" % (clause[2], clause[4])
            rec["props"] = clause[5]
        elif clause and clause[3] == "requires" and "precondition" in msg:
            rec["obligation"] = "%s/safety(call requires %s of %s)" % (rec["owner"], clause[4], clause[2])
            rec["props"] = owner[5] if owner else []
        elif clause and clause[3] == "loop":
            rec["obligation"] = "%s/loop %s" % (clause[2], clause[4])
            rec["props"] = clause[5]
        elif clause and clause[3] == "at":
            rec["obligation"] = "%s/hint at %s" % (clause[2], clause[4])
            rec["props"] = clause[5]
        elif owner:
            rec["obligation"] = "%s/safety" % owner[2]
            rec["props"] = owner[5]
        else:
            # failure inside the preamble / prelude: not attributable to /repo code
            undecided.append("proof failure outside extracted units: %s (line %s)" % (msg, pline))
            continue
        failures.append(rec)
    vr = res["out"].get("verification-results", {})
    if vr.get("encountered-vir-error"):
        undecided.append("verus reported a VIR error")
    if not vr.get("success") and not failures and not undecided:
        undecided.append("verus failed without diagnostics: " + " | ".join(res["raw"][-5:]))
    return {"failures": failures, "undecided": undecided, "fns": fns, "verified": vr.get("verified"), "errors": vr.get("errors")}


def assumption_scan(text):
    pats = ["assume(", "admit(", "external_body", "assume_specification", "#[verifier::external", "uninterp spec fn", "#[verifier::opaque", "#[verifier::exec_allows_no_decreases_clause", "no_decreases"]
    out = {}
    for p in pats:
        out[p] = text.count(p)
    return out


def assume_lemmas(text):
    """mark every top-level proof fn of a preamble text external_body (idempotent)"""
    out = []
    prev = ""
    for ln in text.split("\n"):
        if re.match(r'^(pub\s+)?(broadcast\s+)?proof fn\b', ln) and "external_body" not in prev:
            out.append("#[verifier::external_body]")
        out.append(ln)
        if ln.strip():
            prev = ln
    return "\n".join(out)


def build_group(name, canary=True):
    """extract + assemble; returns dict with paths and assembled objects"""
    group = load_group(name)
    wd = os.path.join(BUILD, SUB, name)
    os.makedirs(wd, exist_ok=True)
    items = extract(group, wd)
    preamble_parts = []
    units = {}
    for cf in group["contracts"]:
        pre, us = parse_contract(os.path.join(ROOT, cf))
        if cf in group.get("lemmas_assumed_from", []):
            # the proof functions of this file are PROVED by the group that owns the file (it loads the same text); here
            # they are taken as given (external_body) so that a lean group does not re-verify — and cannot be destabilised
            # by — lemmas it does not use. Counted by the assumption scan; check.py's audit verifies the owner proves them.
            pre = assume_lemmas(pre)
        preamble_parts.append("// ---- from %s\n%s" % (cf, pre))
        for uid, u in us.items():
            allowed = group.get("unit_files", {}).get(uid)
            if allowed is not None and cf not in allowed:
                continue  # this group takes the unit's contract only from the listed files (interface contract)
            if uid in units:
                o = units[uid]
                o.requires += u.requires
                o.ensures += u.ensures
                for k, v in u.at.items():
                    o.at.setdefault(k, []).extend(v)
                o.loops.update(u.loops)
                if u.safety is not None:
                    o.safety = u.safety
                o.attrs += u.attrs
            else:
                units[uid] = u
    # units present in shared contract files but not part of this group's plan are ignored
    plan_ids = set(i["id"] for i in items)
    for uid in list(units):
        if uid not in plan_ids:
            del units[uid]
    preamble = "\n".join(preamble_parts)
    a = assemble(group, items, units, preamble, canary=False)
    main_path = os.path.join(wd, "unit.rs")
    open(main_path, "w").write(a.text())
    c = None
    can_path = None
    if canary:
        # the canary file only has to show that the must-fail units fail: the preamble's lemmas are proved in the main file
        c = assemble(group, items, units, assume_lemmas(preamble), canary=True)
        can_path = os.path.join(wd, "canary.rs")
        open(can_path, "w").write(c.text())
    return {"group": group, "items": items, "units": units, "main": a, "main_path": main_path, "canary": c, "canary_path": can_path, "workdir": wd, "preamble": preamble}


def rebuild_without_hints(built, drop_hints, tag="nohint"):
    a = assemble(built["group"], built["items"], built["units"], built["preamble"], canary=False, drop_hints=drop_hints)
    path = os.path.join(built["workdir"], "unit_%s.rs" % tag)
    open(path, "w").write(a.text())
    return a, path
