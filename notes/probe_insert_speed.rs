// PROBE TRANSCRIPT — not framework code, not produced by any machinery.
// Hand-assembled during the design phase to find out whether the flagship
// contract of C02/C13 (InsertSpeed::insert_speed, exact pointwise view) can be
// discharged by the installed Verus. Body of `insert_speed` is the text of
// rust/altrios-core/src/track/path_track/speed_point.rs:33 with the rewrite
// rules of DESIGN.md section 3.2 applied by hand, PLUS the candidate repair
// (`speed_end_old`, `end_is_new`, 2 added + 2 changed lines). Result:
//   verus probe_insert_speed.rs        -> 31 verified, 0 errors, 3.2 s
//   same with `ensures false` appended -> fails (contract not vacuous)
//   same with the repair reverted      -> lemma_establish precondition
//                                         `p4c <==> ...` fails (the defect)
// `canon` (no equal neighbours) is not part of this probe yet.
use vstd::prelude::*;
use vstd::std_specs::ops::*;
use vstd::std_specs::cmp::*;
verus! {

#[derive(Clone, Copy)]
pub struct Q { pub v: Ghost<real> }
impl View for Q { type V = real; open spec fn view(&self) -> real { self.v@ } }
pub open spec fn q(r: real) -> Q { Q { v: Ghost(r) } }

impl AddSpecImpl<Q> for Q {
    open spec fn obeys_add_spec() -> bool { true }
    open spec fn add_req(self, rhs: Q) -> bool { true }
    open spec fn add_spec(self, rhs: Q) -> Q { q(self@ + rhs@) }
}
impl core::ops::Add<Q> for Q { type Output = Q;
    #[verifier::external_body] fn add(self, rhs: Q) -> (r: Q) { unimplemented!() } }
impl SubSpecImpl<Q> for Q {
    open spec fn obeys_sub_spec() -> bool { true }
    open spec fn sub_req(self, rhs: Q) -> bool { true }
    open spec fn sub_spec(self, rhs: Q) -> Q { q(self@ - rhs@) }
}
impl core::ops::Sub<Q> for Q { type Output = Q;
    #[verifier::external_body] fn sub(self, rhs: Q) -> (r: Q) { unimplemented!() } }
impl MulSpecImpl<Q> for Q {
    open spec fn obeys_mul_spec() -> bool { true }
    open spec fn mul_req(self, rhs: Q) -> bool { true }
    open spec fn mul_spec(self, rhs: Q) -> Q { q(self@ * rhs@) }
}
impl core::ops::Mul<Q> for Q { type Output = Q;
    #[verifier::external_body] fn mul(self, rhs: Q) -> (r: Q) { unimplemented!() } }
impl NegSpecImpl for Q {
    open spec fn obeys_neg_spec() -> bool { true }
    open spec fn neg_req(self) -> bool { true }
    open spec fn neg_spec(self) -> Q { q(-self@) }
}
impl core::ops::Neg for Q { type Output = Q;
    #[verifier::external_body] fn neg(self) -> (r: Q) { unimplemented!() } }
impl PartialEqSpecImpl for Q {
    open spec fn obeys_eq_spec() -> bool { true }
    open spec fn eq_spec(&self, other: &Q) -> bool { self@ == other@ }
}
impl PartialEq for Q {
    #[verifier::external_body] fn eq(&self, other: &Q) -> (r: bool) { unimplemented!() }
}
impl PartialOrdSpecImpl for Q {
    open spec fn obeys_partial_cmp_spec() -> bool { true }
    open spec fn partial_cmp_spec(&self, other: &Q) -> Option<core::cmp::Ordering> {
        if self@ < other@ { Some(core::cmp::Ordering::Less) } else if self@ == other@ { Some(core::cmp::Ordering::Equal) } else { Some(core::cmp::Ordering::Greater) }
    }
}
impl PartialOrd for Q {
    #[verifier::external_body] fn partial_cmp(&self, other: &Q) -> (r: Option<core::cmp::Ordering>) { unimplemented!() }
}
pub open spec fn rmin(a: real, b: real) -> real { if a <= b { a } else { b } }
pub open spec fn rmax(a: real, b: real) -> real { if a >= b { a } else { b } }
pub open spec fn rabs(a: real) -> real { if a < 0real { -a } else { a } }
impl Q {
    #[verifier::external_body] pub fn abs(self) -> (r: Q) ensures r@ == rabs(self@) { unimplemented!() }
    #[verifier::external_body] pub fn max(self, o: Q) -> (r: Q) ensures r@ == rmax(self@, o@) { unimplemented!() }
    #[verifier::external_body] pub fn min(self, o: Q) -> (r: Q) ensures r@ == rmin(self@, o@) { unimplemented!() }
    #[verifier::external_body] pub fn zero() -> (r: Q) ensures r@ == 0real { unimplemented!() }
    #[verifier::external_body] pub fn is_sign_positive(self) -> (r: bool) ensures r == (self@ >= 0real) { unimplemented!() }
}
pub struct VErr;
pub type AResult<T> = Result<T, VErr>;

#[derive(Clone, Copy)]
pub struct SpeedLimitPoint { pub offset: Q, pub speed_limit: Q }
#[derive(Clone, Copy)]
pub struct SpeedLimit { pub offset_start: Q, pub offset_end: Q, pub speed: Q }

pub type S = Seq<SpeedLimitPoint>;
#[verifier::opaque]
pub open spec fn sorted(s: S) -> bool { forall|i:int,j:int| 0<=i<=j<s.len() ==> s[i].offset@ <= s[j].offset@ }
#[verifier::opaque]
pub open spec fn pos(s: S) -> bool { forall|i:int| 0<=i<s.len() ==> s[i].speed_limit@ > 0real }
pub open spec fn wf(s: S) -> bool { s.len() > 0 && sorted(s) && pos(s) }

pub fn min_speed(speed_old: Q, speed_new: Q) -> (r: Q)
    ensures r@ == (if speed_old@ >= 0real && speed_new@ >= 0real { rmin(speed_old@, speed_new@) } else { -rmin(rabs(speed_old@), rabs(speed_new@)) })
{
    if speed_old.is_sign_positive() && speed_new.is_sign_positive() {
        speed_old.min(speed_new)
    } else {
        -speed_old.abs().min(speed_new.abs())
    }
}

pub proof fn lemma_wf_insert(s: S, i: int, p: SpeedLimitPoint)
    requires wf(s), 0 < i <= s.len(), s[i-1].offset@ <= p.offset@, i < s.len() ==> p.offset@ <= s[i].offset@, p.speed_limit@ > 0real
    ensures wf(s.insert(i, p)), s.insert(i,p)[0] == s[0]
{ reveal(sorted); reveal(pos);
  let t = s.insert(i,p);
  assert forall|a:int,b:int| 0<=a<=b<t.len() implies t[a].offset@ <= t[b].offset@ by {
     if a < i && b < i {} else if a < i && b == i { assert(s[a].offset@ <= s[i-1].offset@); } else if a < i && b > i { assert(s[a].offset@ <= s[i-1].offset@); assert(s[i].offset@ <= s[b-1].offset@); } else if a == i && b == i {} else if a == i && b > i { assert(s[i].offset@ <= s[b-1].offset@); } else { assert(s[a-1].offset@ <= s[b-1].offset@); }
  }
  assert forall|a:int| 0<=a<t.len() implies t[a].speed_limit@ > 0real by { if a < i {} else if a == i {} else { assert(s[a-1].speed_limit@ > 0real); } }
}
pub proof fn lemma_wf_push(s: S, p: SpeedLimitPoint)
    requires wf(s), s[s.len()-1].offset@ <= p.offset@, p.speed_limit@ > 0real
    ensures wf(s.push(p)), s.push(p)[0] == s[0]
{ lemma_wf_insert(s, s.len() as int, p); assert(s.push(p) =~= s.insert(s.len() as int, p)); }
pub proof fn lemma_wf_remove(s: S, i: int)
    requires wf(s), 0 < i < s.len()
    ensures wf(s.remove(i)), s.remove(i)[0] == s[0]
{ reveal(sorted); reveal(pos);
  let t = s.remove(i);
  assert forall|a:int,b:int| 0<=a<=b<t.len() implies t[a].offset@ <= t[b].offset@ by {
     let a2 = if a < i { a } else { a + 1 }; let b2 = if b < i { b } else { b + 1 };
     assert(s[a2].offset@ <= s[b2].offset@);
  }
  assert forall|a:int| 0<=a<t.len() implies t[a].speed_limit@ > 0real by { let a2 = if a < i { a } else { a + 1 }; assert(s[a2].speed_limit@ > 0real); }
}
pub proof fn lemma_wf_set_speed(s: S, i: int, v: Q)
    requires wf(s), 0 <= i < s.len(), v@ > 0real
    ensures wf(s.update(i, SpeedLimitPoint { offset: s[i].offset, speed_limit: v }))
{ reveal(sorted); reveal(pos);
  let t = s.update(i, SpeedLimitPoint { offset: s[i].offset, speed_limit: v });
  assert forall|a:int,b:int| 0<=a<=b<t.len() implies t[a].offset@ <= t[b].offset@ by { assert(s[a].offset@ <= s[b].offset@); }
  assert forall|a:int| 0<=a<t.len() implies t[a].speed_limit@ > 0real by { if a != i { assert(s[a].speed_limit@ > 0real); } }
}
pub proof fn lemma_wf_set_last_offset(s: S, o: Q)
    requires wf(s), o@ >= s[s.len()-1].offset@, s.len() >= 2
    ensures wf(s.update(s.len()-1, SpeedLimitPoint { offset: o, speed_limit: s[s.len()-1].speed_limit })), 
{ reveal(sorted); reveal(pos);
  let n = s.len()-1;
  let t = s.update(n, SpeedLimitPoint { offset: o, speed_limit: s[n].speed_limit });
  assert forall|a:int,b:int| 0<=a<=b<t.len() implies t[a].offset@ <= t[b].offset@ by { assert(s[a].offset@ <= s[b].offset@); assert(s[a].offset@ <= s[n].offset@); }
  assert forall|a:int| 0<=a<t.len() implies t[a].speed_limit@ > 0real by { assert(s[a].speed_limit@ > 0real); }
}
pub proof fn lemma_sorted_le(s: S, a: int, b: int) requires wf(s), 0<=a<=b<s.len() ensures s[a].offset@ <= s[b].offset@ { reveal(sorted); }
pub proof fn lemma_pos(s: S, a: int) requires wf(s), 0<=a<s.len() ensures s[a].speed_limit@ > 0real { reveal(pos); }

// ---- pointwise view ----
pub open spec fn at(s: S, x: real, k: int) -> bool {
    0 <= k < s.len() && s[k].offset@ <= x && (k + 1 == s.len() || x < s[k+1].offset@)
}
pub open spec fn idx_at(s: S, x: real) -> int decreases s.len() {
    if s.len() == 0 { -1 } else if s.last().offset@ <= x { s.len() - 1 } else { idx_at(s.drop_last(), x) }
}
pub open spec fn lim_at(s: S, x: real) -> real { s[idx_at(s, x)].speed_limit@ }

pub proof fn lemma_idx_at(s: S, x: real)
    requires wf(s), s[0].offset@ <= x
    ensures at(s, x, idx_at(s, x))
    decreases s.len()
{
    reveal(sorted); reveal(pos);
    if s.last().offset@ <= x { } else {
        let t = s.drop_last();
        assert(t.len() > 0) by { if t.len() == 0 { assert(s.last() == s[0]); } }
        assert(wf(t)) by { assert forall|a:int,b:int| 0<=a<=b<t.len() implies t[a].offset@ <= t[b].offset@ by { assert(s[a].offset@ <= s[b].offset@); }
                           assert forall|a:int| 0<=a<t.len() implies t[a].speed_limit@ > 0real by { assert(s[a].speed_limit@ > 0real); } }
        lemma_idx_at(t, x);
        let k = idx_at(t, x);
        assert(s[k] == t[k]);
        if k + 1 < t.len() { assert(s[k+1] == t[k+1]); } else { assert(s[k+1] == s.last()); }
    }
}
pub proof fn lemma_at_unique(s: S, x: real, k: int)
    requires wf(s), at(s, x, k)
    ensures idx_at(s, x) == k
    decreases s.len()
{
    reveal(sorted); reveal(pos);
    if s.last().offset@ <= x {
        if k + 1 < s.len() { assert(s[k+1].offset@ <= s[s.len()-1].offset@); }
    } else {
        let t = s.drop_last();
        assert(k < s.len() - 1);
        assert(wf(t)) by { assert forall|a:int,b:int| 0<=a<=b<t.len() implies t[a].offset@ <= t[b].offset@ by { assert(s[a].offset@ <= s[b].offset@); }
                           assert forall|a:int| 0<=a<t.len() implies t[a].speed_limit@ > 0real by { assert(s[a].speed_limit@ > 0real); } }
        assert(t[k] == s[k]);
        if k + 1 < t.len() { assert(t[k+1] == s[k+1]); }
        lemma_at_unique(t, x, k);
    }
}
// value at x given a witness index
pub proof fn lemma_lim_wit(s: S, x: real, k: int)
    requires wf(s), at(s, x, k)
    ensures lim_at(s, x) == s[k].speed_limit@
{ lemma_at_unique(s, x, k); }

pub proof fn lemma_ins(s: S, i: int, p: SpeedLimitPoint, x: real)
    requires wf(s), wf(s.insert(i,p)), 0 < i <= s.len(), s[0].offset@ <= x
    ensures lim_at(s.insert(i,p), x) == (if p.offset@ <= x && (i == s.len() || x < s[i].offset@) { p.speed_limit@ } else { lim_at(s, x) })
{
    let t = s.insert(i, p);
    lemma_idx_at(s, x);
    let k = idx_at(s, x);
    if p.offset@ <= x && (i == s.len() || x < s[i].offset@) {
        assert(t[i] == p);
        if i < s.len() { assert(t[i+1] == s[i]); }
        lemma_lim_wit(t, x, i);
    } else if k < i {
        assert(t[k] == s[k]);
        if k + 1 < i { assert(t[k+1] == s[k+1]); } else {
            assert(t[k+1] == p);
            if !(x < p.offset@) { assert(i < s.len() && x >= s[i].offset@); assert(k + 1 == i); }
        }
        lemma_lim_wit(t, x, k);
    } else {
        assert(t[k+1] == s[k]);
        if k + 1 < s.len() { assert(t[k+2] == s[k+1]); }
        lemma_lim_wit(t, x, k+1);
    }
}
pub proof fn lemma_rem(s: S, i: int, x: real)
    requires wf(s), wf(s.remove(i)), 0 < i < s.len(), s[0].offset@ <= x
    ensures lim_at(s.remove(i), x) == (if at(s, x, i) { s[i-1].speed_limit@ } else { lim_at(s, x) })
{
    let t = s.remove(i);
    lemma_idx_at(s, x);
    let k = idx_at(s, x);
    if at(s, x, i) {
        lemma_at_unique(s, x, i);
        assert(t[i-1] == s[i-1]);
        lemma_sorted_le(s, i-1, i);
        if i + 1 < s.len() { assert(t[i] == s[i+1]); }
        lemma_lim_wit(t, x, i-1);
    } else if k < i {
        assert(t[k] == s[k]);
        if k + 1 < i { assert(t[k+1] == s[k+1]); } else { 
            // k+1 == i: next in t is s[i+1]
            if i + 1 < s.len() { assert(t[i] == s[i+1]); lemma_sorted_le(s, i, i+1); }
        }
        lemma_lim_wit(t, x, k);
    } else {
        assert(k > i);
        assert(t[k-1] == s[k]);
        if k + 1 < s.len() { assert(t[k] == s[k+1]); }
        lemma_lim_wit(t, x, k-1);
    }
}
pub proof fn lemma_upd(s: S, i: int, v: Q, x: real)
    requires wf(s), 0 <= i < s.len(), s[0].offset@ <= x, v@ > 0real
    ensures lim_at(s.update(i, SpeedLimitPoint { offset: s[i].offset, speed_limit: v }), x) == (if at(s, x, i) { v@ } else { lim_at(s, x) })
{
    let t = s.update(i, SpeedLimitPoint { offset: s[i].offset, speed_limit: v });
    lemma_wf_set_speed(s, i, v);
    lemma_idx_at(s, x);
    let k = idx_at(s, x);
    if at(s, x, i) { lemma_at_unique(s, x, i); }
    assert(at(t, x, k));
    lemma_lim_wit(t, x, k);
}
pub proof fn lemma_setoff_last(s: S, o: Q, x: real)
    requires wf(s), s.len() >= 2, o@ >= s[s.len()-1].offset@, s[0].offset@ <= x
    ensures lim_at(s.update(s.len()-1, SpeedLimitPoint { offset: o, speed_limit: s[s.len()-1].speed_limit }), x)
             == (if s[s.len()-1].offset@ <= x < o@ { s[s.len()-2].speed_limit@ } else { lim_at(s, x) })
{
    let n = s.len() - 1;
    let t = s.update(n, SpeedLimitPoint { offset: o, speed_limit: s[n].speed_limit });
    lemma_wf_set_last_offset(s, o);
    lemma_idx_at(s, x);
    let k = idx_at(s, x);
    if s[n].offset@ <= x < o@ {
        lemma_sorted_le(s, n-1, n);
        assert(at(t, x, n-1));
        lemma_lim_wit(t, x, n-1);
    } else if x >= o@ {
        assert(at(s, x, n));
        lemma_at_unique(s, x, n);
        assert(at(t, x, n));
        lemma_lim_wit(t, x, n);
    } else {
        assert(k < n);
        assert(t[k] == s[k]);
        if k + 1 < n { assert(t[k+1] == s[k+1]); }
        assert(at(t, x, k));
        lemma_lim_wit(t, x, k);
    }
}

pub open spec fn target(s0: S, sl: SpeedLimit, x: real) -> real {
    if sl.offset_start@ <= x < sl.offset_end@ { rmin(lim_at(s0, x), sl.speed@) } else { lim_at(s0, x) }
}
#[verifier::opaque]
pub open spec fn exact(s0: S, s1: S, sl: SpeedLimit) -> bool {
    forall|x: real| s0[0].offset@ <= x ==> #[trigger] lim_at(s1, x) == target(s0, sl, x)
}
// x at or after the last point
pub proof fn lemma_last(s: S, x: real) requires wf(s), s[s.len()-1].offset@ <= x ensures lim_at(s, x) == s[s.len()-1].speed_limit@
{ lemma_lim_wit(s, x, s.len()-1); }

pub proof fn lemma_idx_bounds(s: S, x: real, j: int)
    requires wf(s), s[0].offset@ <= x, 0 <= j < s.len()
    ensures x < s[j].offset@ ==> idx_at(s, x) < j, x >= s[j].offset@ ==> idx_at(s, x) >= j,
            0 <= idx_at(s, x) < s.len(), lim_at(s, x) == s[idx_at(s, x)].speed_limit@, at(s, x, idx_at(s, x))
{
    lemma_idx_at(s, x);
    let k = idx_at(s, x);
    if x < s[j].offset@ { if k >= j { lemma_sorted_le(s, j, k); } }
    if x >= s[j].offset@ { if k < j { lemma_sorted_le(s, k+1, j); } }
}
// pending range predicate
pub open spec fn pending(s: S, a: int, b: int, x: real) -> bool { a < b && s[a].offset@ <= x < s[b].offset@ }
#[verifier::opaque]
pub open spec fn inv2(s0: S, s: S, sl: SpeedLimit, a: int, b: int) -> bool {
    forall|x: real| s0[0].offset@ <= x ==> 
        #[trigger] lim_at(s, x) == (if pending(s, a, b, x) { lim_at(s0, x) } else { target(s0, sl, x) })
        && (pending(s, a, b, x) ==> sl.offset_start@ <= x < sl.offset_end@)
}

pub open spec fn pt(o: real, v: real) -> SpeedLimitPoint { SpeedLimitPoint { offset: q(o), speed_limit: q(v) } }

pub proof fn lemma_establish(s0: S, s1: S, s2: S, sl: SpeedLimit, i0: int, e0: int, p3c: bool, p4c: bool, a: int, b: int)
    requires wf(s0), wf(s1), wf(s2), s0[0].offset@ <= sl.offset_start@ <= sl.offset_end@, sl.speed@ > 0real,
        0 <= i0 < s0.len(), 0 <= e0 < s0.len(), i0 <= e0 + 1,
        forall|j:int| 0 <= j < i0 ==> s0[j].offset@ < sl.offset_start@,
        s0[i0].offset@ >= sl.offset_start@,
        forall|j:int| e0 < j < s0.len() ==> s0[j].offset@ > sl.offset_end@,
        s0[e0].offset@ <= sl.offset_end@,
        p3c <==> (sl.offset_start@ < s0[i0].offset@ && sl.speed@ < s0[i0-1].speed_limit@),
        p3c ==> s1 == s0.insert(i0, s1[i0]) && s1[i0].offset@ == sl.offset_start@ && s1[i0].speed_limit@ == rmin(s0[i0-1].speed_limit@, sl.speed@),
        !p3c ==> s1 == s0,
        a == i0 + (if p3c { 1int } else { 0int }),
        p4c <==> (s0[e0].offset@ < sl.offset_end@ && sl.speed@ < s0[e0].speed_limit@),
        p4c ==> s2 == s1.insert(b, s2[b]) && s2[b].offset@ == sl.offset_end@ && s2[b].speed_limit@ == s0[e0].speed_limit@ && b == e0 + (if p3c { 1int } else { 0int }) + 1,
        !p4c ==> s2 == s1 && b == e0 + (if p3c { 1int } else { 0int }),
    ensures inv2(s0, s2, sl, a, b)
{
    reveal(inv2);
    lemma_pos(s0, e0); if i0 > 0 { lemma_pos(s0, i0 - 1); }
    assert(i0 == 0 ==> !p3c) by { if i0 == 0 { assert(s0[0].offset@ >= sl.offset_start@); } }
    assert forall|x: real| s0[0].offset@ <= x implies
        #[trigger] lim_at(s2, x) == (if pending(s2, a, b, x) { lim_at(s0, x) } else { target(s0, sl, x) })
        && (pending(s2, a, b, x) ==> sl.offset_start@ <= x < sl.offset_end@) by {
        lemma_idx_bounds(s0, x, i0); lemma_idx_bounds(s0, x, e0);
        if e0 + 1 < s0.len() { lemma_idx_bounds(s0, x, e0 + 1); }
        if i0 > 0 { lemma_idx_bounds(s0, x, i0 - 1); }
        if p3c { lemma_ins(s0, i0, s1[i0], x); }
        if p4c { lemma_ins(s1, b, s2[b], x); }
        if i0 <= e0 { lemma_sorted_le(s0, i0, e0); }
        let k0 = idx_at(s0, x);
        // offsets of s2[a], s2[b]
        if a < b {
            assert(s2[a].offset@ == s0[i0].offset@);
            assert(s2[b].offset@ == (if p4c { sl.offset_end@ } else { s0[e0].offset@ }));
        }
    }
}

pub proof fn lemma_step_upd(s0: S, s: S, sl: SpeedLimit, a: int, b: int, newv: Q)
    requires wf(s0), wf(s), inv2(s0, s, sl, a, b), 0 <= a < b < s.len(), newv@ == rmin(s[a].speed_limit@, sl.speed@), s0[0].offset@ == s[0].offset@, sl.speed@ > 0real
    ensures inv2(s0, s.update(a, SpeedLimitPoint { offset: s[a].offset, speed_limit: newv }), sl, a + 1, b)
{
    reveal(inv2);
    let t = s.update(a, SpeedLimitPoint { offset: s[a].offset, speed_limit: newv });
    lemma_pos(s, a);
    assert forall|x: real| s0[0].offset@ <= x implies
        #[trigger] lim_at(t, x) == (if pending(t, a + 1, b, x) { lim_at(s0, x) } else { target(s0, sl, x) })
        && (pending(t, a + 1, b, x) ==> sl.offset_start@ <= x < sl.offset_end@) by {
        lemma_upd(s, a, newv, x);
        lemma_idx_bounds(s, x, a); lemma_idx_bounds(s, x, a + 1); lemma_idx_bounds(s, x, b);
        lemma_sorted_le(s, a, a + 1); lemma_sorted_le(s, a + 1, b);
        assert(lim_at(s, x) == (if pending(s, a, b, x) { lim_at(s0, x) } else { target(s0, sl, x) }));
        if at(s, x, a) { lemma_lim_wit(s, x, a); }
    }
}
pub proof fn lemma_step_rem(s0: S, s: S, sl: SpeedLimit, a: int, b: int)
    requires wf(s0), wf(s), wf(s.remove(a)), inv2(s0, s, sl, a, b), 0 < a < b < s.len(), s[a-1].speed_limit@ == rmin(s[a].speed_limit@, sl.speed@), s0[0].offset@ == s[0].offset@, sl.speed@ > 0real
    ensures inv2(s0, s.remove(a), sl, a, b - 1)
{
    reveal(inv2);
    let t = s.remove(a);
    assert forall|x: real| s0[0].offset@ <= x implies
        #[trigger] lim_at(t, x) == (if pending(t, a, b - 1, x) { lim_at(s0, x) } else { target(s0, sl, x) })
        && (pending(t, a, b - 1, x) ==> sl.offset_start@ <= x < sl.offset_end@) by {
        lemma_rem(s, a, x);
        lemma_idx_bounds(s, x, a); lemma_idx_bounds(s, x, a + 1); lemma_idx_bounds(s, x, b);
        lemma_sorted_le(s, a, a + 1); lemma_sorted_le(s, a + 1, b);
        assert(lim_at(s, x) == (if pending(s, a, b, x) { lim_at(s0, x) } else { target(s0, sl, x) }));
        if at(s, x, a) { lemma_lim_wit(s, x, a); }
        assert(t[b-1] == s[b]);
        if a < b - 1 { assert(t[a] == s[a+1]); }
    }
}
pub proof fn lemma_done(s0: S, s: S, sl: SpeedLimit, a: int, b: int)
    requires inv2(s0, s, sl, a, b), a >= b
    ensures exact(s0, s, sl)
{ reveal(inv2); reveal(exact);
  assert forall|x: real| s0[0].offset@ <= x implies #[trigger] lim_at(s, x) == target(s0, sl, x) by {
      assert(lim_at(s, x) == (if pending(s, a, b, x) { lim_at(s0, x) } else { target(s0, sl, x) }));
  }
}
pub proof fn lemma_final_rem(s0: S, s: S, sl: SpeedLimit, a: int)
    requires exact(s0, s, sl), wf(s), wf(s.remove(a)), 0 < a < s.len(), s[a-1].speed_limit@ == s[a].speed_limit@, s0[0].offset@ == s[0].offset@
    ensures exact(s0, s.remove(a), sl)
{ reveal(exact);
  assert forall|x: real| s0[0].offset@ <= x implies #[trigger] lim_at(s.remove(a), x) == target(s0, sl, x) by {
      lemma_rem(s, a, x);
      assert(lim_at(s, x) == target(s0, sl, x));
      if at(s, x, a) { lemma_lim_wit(s, x, a); }
  }
}
pub proof fn lemma_exact_intro(s0: S, s: S, sl: SpeedLimit)
    requires forall|x: real| s0[0].offset@ <= x ==> #[trigger] lim_at(s, x) == target(s0, sl, x)
    ensures exact(s0, s, sl)
{ reveal(exact); }
pub fn insert_speed(self_: &mut Vec<SpeedLimitPoint>, speed_limit: &SpeedLimit)
    requires wf(old(self_)@), old(self_)@[0].offset@ <= speed_limit.offset_start@ <= speed_limit.offset_end@, speed_limit.speed@ > 0real,
    ensures wf(final(self_)@), final(self_)@[0].offset@ == old(self_)@[0].offset@,
        exact(old(self_)@, final(self_)@, *speed_limit),
{
        // If the new speed is entirely after the end of all other speed points
        if self_.last().unwrap().offset <= speed_limit.offset_start {
            let speed_old = self_.last().unwrap().speed_limit;
            let speed_new = min_speed(speed_old, speed_limit.speed);
            let ghost s0 = self_@;
            let ghost sl = *speed_limit;
            proof { lemma_pos(s0, s0.len()-1);
                if speed_old@ == speed_new@ {
                    assert forall|x: real| s0[0].offset@ <= x implies #[trigger] lim_at(s0, x) == target(s0, sl, x) by {
                        if sl.offset_start@ <= x < sl.offset_end@ { lemma_last(s0, x); }
                    }
                }
            }
            if speed_old != speed_new {
                // If the new speed is strictly after the end of speed points
                if self_.last().unwrap().offset < speed_limit.offset_start {
                    // Insert the new speed at its offset and add the old speed at the end
                    self_.reserve(2);
                    let ghost g0 = self_@;
                    self_.push(SpeedLimitPoint {
                        offset: speed_limit.offset_start,
                        speed_limit: speed_new,
                    });
                    let ghost g1 = self_@;
                    self_.push(SpeedLimitPoint {
                        offset: speed_limit.offset_end,
                        speed_limit: speed_old,
                    });
                    proof { lemma_pos(g0, g0.len()-1); lemma_wf_push(g0, g1[g1.len()-1]); lemma_wf_push(g1, self_@[self_@.len()-1]);
                        let p1 = g1[g1.len()-1]; let p2 = self_@[self_@.len()-1];
                        assert(g1 =~= g0.insert(g0.len() as int, p1)); assert(self_@ =~= g1.insert(g1.len() as int, p2));
                        assert forall|x: real| s0[0].offset@ <= x implies #[trigger] lim_at(self_@, x) == target(s0, sl, x) by {
                            lemma_ins(g0, g0.len() as int, p1, x); lemma_ins(g1, g1.len() as int, p2, x);
                            if sl.offset_start@ <= x { lemma_last(s0, x); }
                        }
                    }
                }
                // If the new speed matches the end location and the new speed equals the one prior
                else if self_.len() > 1 && self_[self_.len() - 2].speed_limit == speed_new {
                    // Shift the offset of the last speed
                    let ghost g0 = self_@;
                    self_.last_mut().unwrap().offset = speed_limit.offset_end;
                    proof { lemma_wf_set_last_offset(g0, speed_limit.offset_end); assert(self_@ =~= g0.update(g0.len()-1, SpeedLimitPoint { offset: speed_limit.offset_end, speed_limit: g0[g0.len()-1].speed_limit }));
                        assert forall|x: real| s0[0].offset@ <= x implies #[trigger] lim_at(self_@, x) == target(s0, sl, x) by {
                            lemma_setoff_last(g0, speed_limit.offset_end, x);
                            if sl.offset_start@ <= x { lemma_last(s0, x); }
                        }
                    }
                }
                // If the new speed matches the end location and the new speed does not equal the one prior
                else {
                    // Overwrite the old last speed and add the old speed at the end
                    let ghost g0 = self_@;
                    self_.last_mut().unwrap().speed_limit = speed_new;
                    let ghost g1 = self_@;
                    self_.push(SpeedLimitPoint {
                        offset: speed_limit.offset_end,
                        speed_limit: speed_old,
                    });
                    proof { lemma_pos(g0, g0.len()-1); lemma_wf_set_speed(g0, g0.len()-1, speed_new); assert(g1 =~= g0.update(g0.len()-1, SpeedLimitPoint { offset: g0[g0.len()-1].offset, speed_limit: speed_new })); lemma_wf_push(g1, self_@[self_@.len()-1]);
                        let p2 = self_@[self_@.len()-1];
                        assert(self_@ =~= g1.insert(g1.len() as int, p2));
                        assert forall|x: real| s0[0].offset@ <= x implies #[trigger] lim_at(self_@, x) == target(s0, sl, x) by {
                            lemma_upd(g0, g0.len()-1, speed_new, x); lemma_ins(g1, g1.len() as int, p2, x);
                            if sl.offset_start@ <= x { lemma_last(s0, x); }
                        }
                    }
                }
            }
            proof { lemma_exact_intro(s0, self_@, sl); }
        } else {
            // Determine the range of impacted speed points
            let mut idx_start = 0usize;
            while speed_limit.offset_start > self_[idx_start].offset
                invariant 0 <= idx_start < self_.len(), self_@ == old(self_)@, wf(self_@),
                    self_@[self_.len()-1].offset@ > speed_limit.offset_start@,
                    forall|j:int| 0 <= j < idx_start ==> self_@[j].offset@ < speed_limit.offset_start@,
                decreases self_.len() - idx_start
            {
                idx_start += 1;
            }
            let mut idx_end = self_.len() - 1;
            while self_[idx_end].offset > speed_limit.offset_end
                invariant 0 <= idx_end < self_.len(), self_@ == old(self_)@, wf(self_@),
                    self_@[0].offset@ <= speed_limit.offset_end@,
                    0 <= idx_start < self_.len(),
                    self_@[self_.len()-1].offset@ > speed_limit.offset_start@,
                    forall|j:int| 0 <= j < idx_start ==> self_@[j].offset@ < speed_limit.offset_start@,
                    self_@[idx_start as int].offset@ >= speed_limit.offset_start@,
                    forall|j:int| idx_end < j < self_.len() ==> self_@[j].offset@ > speed_limit.offset_end@,
                decreases idx_end
            {
                idx_end -= 1;
            }

            let ghost s0 = self_@;
            let ghost sl = *speed_limit;
            let ghost i0 = idx_start as int;
            let ghost e0 = idx_end as int;
            proof { if i0 > e0 + 1 { assert(s0[i0-1].offset@ < sl.offset_start@); assert(s0[i0-1].offset@ > sl.offset_end@); } }
            let speed_end_old = self_[idx_end].speed_limit;
            let end_is_new = self_[idx_end].offset < speed_limit.offset_end;
            // If the speed starts at an offset not already in speeds
            if speed_limit.offset_start < self_[idx_start].offset {
                let speed_old = self_[idx_start - 1].speed_limit;
                let speed_new = min_speed(speed_old, speed_limit.speed);

                // Insert if it is a more restrictive speed
                if speed_old != speed_new {
                    let ghost g0 = self_@;
                    self_.insert(
                        idx_start,
                        SpeedLimitPoint {
                            offset: speed_limit.offset_start,
                            speed_limit: speed_new,
                        },
                    );
                    proof { lemma_pos(g0, idx_start - 1); lemma_wf_insert(g0, idx_start as int, self_@[idx_start as int]); }
                    idx_start += 1;
                    idx_end += 1;
                }
            }

            // If the old speed does not end at offset end
            assert(idx_end < self_.len());
            let ghost s1 = self_@;
            let ghost p3c = s1.len() != s0.len();
            if end_is_new {
                assert(idx_end < self_.len());
                let speed_old = speed_end_old;

                // If the speed is different, insert the old speed at offset end
                if speed_old != min_speed(speed_old, speed_limit.speed) {
                    let ghost g0 = self_@;
                    self_.insert(
                        idx_end + 1,
                        SpeedLimitPoint {
                            offset: speed_limit.offset_end,
                            speed_limit: speed_old,
                        },
                    );
                    proof { lemma_pos(g0, idx_end as int); lemma_wf_insert(g0, idx_end + 1, self_@[idx_end + 1]); }
                    idx_end += 1;
                }
            }

            let ghost s2 = self_@;
            let ghost p4c = s2.len() != s1.len();
            proof {
                lemma_establish(s0, s1, s2, sl, i0, e0, p3c, p4c, idx_start as int, idx_end as int);
            }
            // OLD VERSION:
            // Update and erase all speed points in range as appropriate
            while idx_start < idx_end
                invariant wf(self_@), idx_end < self_.len(), self_@[0].offset@ == old(self_)@[0].offset@, speed_limit.speed@ > 0real,
                    idx_start <= idx_end + 1, idx_start < self_.len(),
                    inv2(s0, self_@, sl, idx_start as int, idx_end as int), sl == *speed_limit, wf(s0), s0[0].offset@ == self_@[0].offset@,
                decreases idx_end - idx_start
            {
                let speed_new = min_speed(self_[idx_start].speed_limit, speed_limit.speed);
                let ghost g0 = self_@;
                proof { lemma_pos(g0, idx_start as int); }
                if idx_start > 0 && self_[idx_start - 1].speed_limit == speed_new {
                    self_.remove(idx_start);
                    idx_end -= 1;
                    proof { lemma_wf_remove(g0, idx_start as int); lemma_step_rem(s0, g0, sl, idx_start as int, idx_end + 1); }
                } else {
                    self_[idx_start].speed_limit = speed_new;
                    idx_start += 1;
                    proof { lemma_wf_set_speed(g0, idx_start - 1, speed_new); assert(self_@ =~= g0.update(idx_start - 1, SpeedLimitPoint { offset: g0[idx_start - 1].offset, speed_limit: speed_new })); lemma_step_upd(s0, g0, sl, idx_start - 1, idx_end as int, speed_new); }
                }
            }

            proof { lemma_done(s0, self_@, sl, idx_start as int, idx_end as int); }
            // Check and remove last speed point if applicable
            if idx_start > 0 && self_[idx_start - 1].speed_limit == self_[idx_start].speed_limit {
                let ghost g0 = self_@;
                self_.remove(idx_start);
                proof { lemma_wf_remove(g0, idx_start as int); lemma_final_rem(s0, g0, sl, idx_start as int); }
            }
        }
}
} // verus!
fn main() {}
