// ---------------------------------------------------------------------------
// prelude/q_f64.rs — IEEE-754 twin of prelude/q_real.rs, used ONLY by the Kani
// harnesses (kani/…): the same mechanically extracted functions are compiled
// against `Q(f64)`, where is_nan / is_infinite / partial_cmp == None are the real
// f64 methods. No axioms here: everything below is executable Rust.
// uom quantities are `#[repr(transparent)]` wrappers of an f64 in SI base units and
// their comparison / is_nan / is_finite methods delegate to f64 (assumption A-UOM).
// ---------------------------------------------------------------------------
#![allow(dead_code, unused_variables, unused_mut, unused_macros, unused_imports)]
pub use core::cmp::Ordering;

#[derive(Clone, Copy, Debug, PartialEq, PartialOrd, Default)]
pub struct Q(pub f64);

impl Q {
    pub fn zero() -> Q { Q(0.0) }
    pub fn is_nan(self) -> bool { self.0.is_nan() }
    pub fn is_infinite(self) -> bool { self.0.is_infinite() }
    pub fn is_finite(self) -> bool { self.0.is_finite() }
    pub fn abs(self) -> Q { Q(self.0.abs()) }
    pub fn trunc(self) -> Q { Q(self.0.trunc()) }
    pub fn max(self, o: Q) -> Q { Q(self.0.max(o.0)) }
    pub fn min(self, o: Q) -> Q { Q(self.0.min(o.0)) }
    pub fn inf() -> Q { Q(f64::INFINITY) }
    pub fn neg_inf() -> Q { Q(f64::NEG_INFINITY) }
    pub fn nan() -> Q { Q(f64::NAN) }
    pub fn from_usize(n: usize) -> Q { Q(n as f64) }
}
impl core::ops::Add for Q { type Output = Q; fn add(self, o: Q) -> Q { Q(self.0 + o.0) } }
impl core::ops::Sub for Q { type Output = Q; fn sub(self, o: Q) -> Q { Q(self.0 - o.0) } }
impl core::ops::Mul for Q { type Output = Q; fn mul(self, o: Q) -> Q { Q(self.0 * o.0) } }
impl core::ops::Div for Q { type Output = Q; fn div(self, o: Q) -> Q { Q(self.0 / o.0) } }
impl core::ops::Neg for Q { type Output = Q; fn neg(self) -> Q { Q(-self.0) } }
/// decimal literal n/d with n < 2^53 and d a power of ten <= 10^22: the correctly rounded quotient is the
/// f64 the source literal denotes
pub fn qlit(n: u128, d: u128) -> Q { Q(n as f64 / d as f64) }

// ---- errors: ValidationErrors as a counter (R-ERR), same API as the Verus shim in contracts/validate.vc
#[derive(Debug, Clone, Copy)]
pub struct VErr;
#[derive(Debug)]
pub struct VErrors { pub n: usize }
impl VErrors {
    pub fn new() -> VErrors { VErrors { n: 0 } }
    pub fn push(&mut self, _e: VErr) { self.n += 1; }
    pub fn add_context(&mut self, _e: VErr) { self.n += 1; }
    pub fn append(&mut self, other: &mut VErrors) { self.n += other.n; other.n = 0; }
    pub fn is_empty(&self) -> bool { self.n == 0 }
    pub fn make_err(self) -> Result<(), VErrors> { if self.n == 0 { Ok(()) } else { Err(self) } }
}
pub type AResult<T> = Result<T, VErr>;
pub fn slice_from_check(a: usize, n: usize) -> usize { assert!(a <= n); a }
// extraction markers are no-ops here
macro_rules! vx_contract { ($($t:tt)*) => {}; }
macro_rules! vx_at { ($($t:tt)*) => {}; }
macro_rules! vx_loop { ($($t:tt)*) => {}; }
