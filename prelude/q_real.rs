// ---------------------------------------------------------------------------
// prelude/q_real.rs — the numeric shim (assumption A-REAL) and error shims.
// Every `external_body` below is an axiom about the real crate's arithmetic:
// f64 / uom quantities are treated as mathematical reals in SI base units.
// This file is part of the trusted base and is listed in every evidence file.
// ---------------------------------------------------------------------------
#[derive(Clone, Copy)]
pub struct Q { pub v: Ghost<real> }
impl View for Q { type V = real; open spec fn view(&self) -> real { self.v@ } }
pub open spec fn q(r: real) -> Q { Q { v: Ghost(r) } }

pub open spec fn rmin(a: real, b: real) -> real { if a <= b { a } else { b } }
pub open spec fn rmax(a: real, b: real) -> real { if a >= b { a } else { b } }
pub open spec fn rabs(a: real) -> real { if a < 0real { -a } else { a } }

// ---- Q op Q
impl AddSpecImpl<Q> for Q {
    open spec fn obeys_add_spec() -> bool { true }
    open spec fn add_req(self, rhs: Q) -> bool { true }
    open spec fn add_spec(self, rhs: Q) -> Q { q(self@ + rhs@) }
}
impl core::ops::Add<Q> for Q { type Output = Q;
    #[verifier::external_body] fn add(self, rhs: Q) -> (r: Q) { unimplemented!() } }
impl SubSpecImpl<Q> for Q {
    open spec fn obeys_sub_spec() -> bool { true }
    open spec fn sub_req(self, rhs: Q) -> bool { true }
    open spec fn sub_spec(self, rhs: Q) -> Q { q(self@ - rhs@) }
}
impl core::ops::Sub<Q> for Q { type Output = Q;
    #[verifier::external_body] fn sub(self, rhs: Q) -> (r: Q) { unimplemented!() } }
impl MulSpecImpl<Q> for Q {
    open spec fn obeys_mul_spec() -> bool { true }
    open spec fn mul_req(self, rhs: Q) -> bool { true }
    open spec fn mul_spec(self, rhs: Q) -> Q { q(self@ * rhs@) }
}
impl core::ops::Mul<Q> for Q { type Output = Q;
    #[verifier::external_body] fn mul(self, rhs: Q) -> (r: Q) { unimplemented!() } }
// R-DIV: division is total; at rhs == 0 the quotient is an unspecified real
impl DivSpecImpl<Q> for Q {
    open spec fn obeys_div_spec() -> bool { true }
    open spec fn div_req(self, rhs: Q) -> bool { true }
    open spec fn div_spec(self, rhs: Q) -> Q { q(self@ / rhs@) }
}
impl core::ops::Div<Q> for Q { type Output = Q;
    #[verifier::external_body] fn div(self, rhs: Q) -> (r: Q) { unimplemented!() } }
impl NegSpecImpl for Q {
    open spec fn obeys_neg_spec() -> bool { true }
    open spec fn neg_req(self) -> bool { true }
    open spec fn neg_spec(self) -> Q { q(-self@) }
}
impl core::ops::Neg for Q { type Output = Q;
    #[verifier::external_body] fn neg(self) -> (r: Q) { unimplemented!() } }

// ---- &Q op &Q, Q op &Q, &Q op Q  (std has all of these for f64)
impl<'a> AddSpecImpl<&'a Q> for &'a Q {
    open spec fn obeys_add_spec() -> bool { true }
    open spec fn add_req(self, rhs: &'a Q) -> bool { true }
    open spec fn add_spec(self, rhs: &'a Q) -> Q { q(self@ + rhs@) }
}
impl<'a> core::ops::Add<&'a Q> for &'a Q { type Output = Q;
    #[verifier::external_body] fn add(self, rhs: &'a Q) -> (r: Q) { unimplemented!() } }
impl<'a> SubSpecImpl<&'a Q> for &'a Q {
    open spec fn obeys_sub_spec() -> bool { true }
    open spec fn sub_req(self, rhs: &'a Q) -> bool { true }
    open spec fn sub_spec(self, rhs: &'a Q) -> Q { q(self@ - rhs@) }
}
impl<'a> core::ops::Sub<&'a Q> for &'a Q { type Output = Q;
    #[verifier::external_body] fn sub(self, rhs: &'a Q) -> (r: Q) { unimplemented!() } }
impl<'a> MulSpecImpl<&'a Q> for &'a Q {
    open spec fn obeys_mul_spec() -> bool { true }
    open spec fn mul_req(self, rhs: &'a Q) -> bool { true }
    open spec fn mul_spec(self, rhs: &'a Q) -> Q { q(self@ * rhs@) }
}
impl<'a> core::ops::Mul<&'a Q> for &'a Q { type Output = Q;
    #[verifier::external_body] fn mul(self, rhs: &'a Q) -> (r: Q) { unimplemented!() } }
impl<'a> DivSpecImpl<&'a Q> for &'a Q {
    open spec fn obeys_div_spec() -> bool { true }
    open spec fn div_req(self, rhs: &'a Q) -> bool { true }
    open spec fn div_spec(self, rhs: &'a Q) -> Q { q(self@ / rhs@) }
}
impl<'a> core::ops::Div<&'a Q> for &'a Q { type Output = Q;
    #[verifier::external_body] fn div(self, rhs: &'a Q) -> (r: Q) { unimplemented!() } }

impl<'a> AddSpecImpl<Q> for &'a Q {
    open spec fn obeys_add_spec() -> bool { true }
    open spec fn add_req(self, rhs: Q) -> bool { true }
    open spec fn add_spec(self, rhs: Q) -> Q { q(self@ + rhs@) }
}
impl<'a> core::ops::Add<Q> for &'a Q { type Output = Q;
    #[verifier::external_body] fn add(self, rhs: Q) -> (r: Q) { unimplemented!() } }
impl<'a> SubSpecImpl<Q> for &'a Q {
    open spec fn obeys_sub_spec() -> bool { true }
    open spec fn sub_req(self, rhs: Q) -> bool { true }
    open spec fn sub_spec(self, rhs: Q) -> Q { q(self@ - rhs@) }
}
impl<'a> core::ops::Sub<Q> for &'a Q { type Output = Q;
    #[verifier::external_body] fn sub(self, rhs: Q) -> (r: Q) { unimplemented!() } }
impl<'a> MulSpecImpl<Q> for &'a Q {
    open spec fn obeys_mul_spec() -> bool { true }
    open spec fn mul_req(self, rhs: Q) -> bool { true }
    open spec fn mul_spec(self, rhs: Q) -> Q { q(self@ * rhs@) }
}
impl<'a> core::ops::Mul<Q> for &'a Q { type Output = Q;
    #[verifier::external_body] fn mul(self, rhs: Q) -> (r: Q) { unimplemented!() } }
impl<'a> DivSpecImpl<Q> for &'a Q {
    open spec fn obeys_div_spec() -> bool { true }
    open spec fn div_req(self, rhs: Q) -> bool { true }
    open spec fn div_spec(self, rhs: Q) -> Q { q(self@ / rhs@) }
}
impl<'a> core::ops::Div<Q> for &'a Q { type Output = Q;
    #[verifier::external_body] fn div(self, rhs: Q) -> (r: Q) { unimplemented!() } }

impl<'a> AddSpecImpl<&'a Q> for Q {
    open spec fn obeys_add_spec() -> bool { true }
    open spec fn add_req(self, rhs: &'a Q) -> bool { true }
    open spec fn add_spec(self, rhs: &'a Q) -> Q { q(self@ + rhs@) }
}
impl<'a> core::ops::Add<&'a Q> for Q { type Output = Q;
    #[verifier::external_body] fn add(self, rhs: &'a Q) -> (r: Q) { unimplemented!() } }
impl<'a> SubSpecImpl<&'a Q> for Q {
    open spec fn obeys_sub_spec() -> bool { true }
    open spec fn sub_req(self, rhs: &'a Q) -> bool { true }
    open spec fn sub_spec(self, rhs: &'a Q) -> Q { q(self@ - rhs@) }
}
impl<'a> core::ops::Sub<&'a Q> for Q { type Output = Q;
    #[verifier::external_body] fn sub(self, rhs: &'a Q) -> (r: Q) { unimplemented!() } }
impl<'a> MulSpecImpl<&'a Q> for Q {
    open spec fn obeys_mul_spec() -> bool { true }
    open spec fn mul_req(self, rhs: &'a Q) -> bool { true }
    open spec fn mul_spec(self, rhs: &'a Q) -> Q { q(self@ * rhs@) }
}
impl<'a> core::ops::Mul<&'a Q> for Q { type Output = Q;
    #[verifier::external_body] fn mul(self, rhs: &'a Q) -> (r: Q) { unimplemented!() } }
impl<'a> DivSpecImpl<&'a Q> for Q {
    open spec fn obeys_div_spec() -> bool { true }
    open spec fn div_req(self, rhs: &'a Q) -> bool { true }
    open spec fn div_spec(self, rhs: &'a Q) -> Q { q(self@ / rhs@) }
}
impl<'a> core::ops::Div<&'a Q> for Q { type Output = Q;
    #[verifier::external_body] fn div(self, rhs: &'a Q) -> (r: Q) { unimplemented!() } }
impl<'a> NegSpecImpl for &'a Q {
    open spec fn obeys_neg_spec() -> bool { true }
    open spec fn neg_req(self) -> bool { true }
    open spec fn neg_spec(self) -> Q { q(-self@) }
}
impl<'a> core::ops::Neg for &'a Q { type Output = Q;
    #[verifier::external_body] fn neg(self) -> (r: Q) { unimplemented!() } }

// ---- comparisons
impl PartialEqSpecImpl for Q {
    open spec fn obeys_eq_spec() -> bool { true }
    open spec fn eq_spec(&self, other: &Q) -> bool { self@ == other@ }
}
impl PartialEq for Q {
    #[verifier::external_body] fn eq(&self, other: &Q) -> (r: bool) { unimplemented!() }
}
impl PartialOrdSpecImpl for Q {
    open spec fn obeys_partial_cmp_spec() -> bool { true }
    open spec fn partial_cmp_spec(&self, other: &Q) -> Option<core::cmp::Ordering> {
        if self@ < other@ { Some(core::cmp::Ordering::Less) }
        else if self@ == other@ { Some(core::cmp::Ordering::Equal) }
        else { Some(core::cmp::Ordering::Greater) }
    }
}
impl PartialOrd for Q {
    #[verifier::external_body] fn partial_cmp(&self, other: &Q) -> (r: Option<core::cmp::Ordering>) { unimplemented!() }
}

// ---- constants and methods
#[verifier::external_body]
pub fn qlit(n: u128, d: u128) -> (r: Q)
    requires d > 0
    ensures r@ == (n as real) / (d as real)
{ unimplemented!() }

pub uninterp spec fn q_big() -> real;
pub uninterp spec fn q_trunc(a: real) -> real;

impl Q {
    #[verifier::external_body] pub fn abs(self) -> (r: Q) ensures r@ == rabs(self@) { unimplemented!() }
    #[verifier::external_body] pub fn max(self, o: Q) -> (r: Q) ensures r@ == rmax(self@, o@) { unimplemented!() }
    #[verifier::external_body] pub fn min(self, o: Q) -> (r: Q) ensures r@ == rmin(self@, o@) { unimplemented!() }
    #[verifier::external_body] pub fn zero() -> (r: Q) ensures r@ == 0real { unimplemented!() }
    #[verifier::external_body] pub fn from_usize(n: usize) -> (r: Q) ensures r@ == n as real { unimplemented!() }
    #[verifier::external_body] pub fn powi(self, n: i32) -> (r: Q)
        ensures n == 2 ==> r@ == self@ * self@, n == 1 ==> r@ == self@ { unimplemented!() }
    #[verifier::external_body] pub fn sqrt(self) -> (r: Q)
        ensures self@ >= 0real ==> (r@ >= 0real && r@ * r@ == self@) { unimplemented!() }
    // f64::trunc: an uninterpreted function of the real value (nothing about rounding is assumed)
    #[verifier::external_body] pub fn trunc(self) -> (r: Q) ensures r@ == q_trunc(self@) { unimplemented!() }
    #[verifier::external_body] pub fn is_sign_positive(self) -> (r: bool) ensures r == (self@ >= 0real) { unimplemented!() }
    // R-NAN: reals are never NaN / infinite
    #[verifier::external_body] pub fn is_nan(self) -> (r: bool) ensures !r { unimplemented!() }
    #[verifier::external_body] pub fn is_infinite(self) -> (r: bool) ensures !r { unimplemented!() }
    #[verifier::external_body] pub fn is_finite(self) -> (r: bool) ensures r { unimplemented!() }
    // R-NAN: +inf sentinel: an unspecified value with no axioms except being that of q_big()
    #[verifier::external_body] pub fn inf() -> (r: Q) ensures r@ == q_big() { unimplemented!() }
    #[verifier::external_body] pub fn neg_inf() -> (r: Q) ensures r@ == -q_big() { unimplemented!() }
    // R-NAN: NaN has no real counterpart: an unspecified value, nothing can be proved from it
    #[verifier::external_body] pub fn nan() -> (r: Q) { unimplemented!() }
}

// ---- errors (R-ERR)
#[derive(Debug)]
pub struct VErr;
pub type AResult<T> = Result<T, VErr>;

pub trait Ctx<T> {
    spec fn ctx_spec(self) -> Result<T, VErr> where Self: Sized;
    fn ctx(self) -> (r: Result<T, VErr>) where Self: Sized
        ensures r == self.ctx_spec();
}
impl<T> Ctx<T> for Result<T, VErr> {
    open spec fn ctx_spec(self) -> Result<T, VErr> { self }
    fn ctx(self) -> (r: Result<T, VErr>) { self }
}
impl<T> Ctx<T> for Option<T> {
    open spec fn ctx_spec(self) -> Result<T, VErr> { match self { Some(v) => Ok(v), None => Err(VErr) } }
    fn ctx(self) -> (r: Result<T, VErr>) { match self { Some(v) => Ok(v), None => Err(VErr) } }
}

// R-ASSERT: the real `assert!` diverges when its condition is false
#[verifier::external_body]
pub fn rt_assert(c: bool) ensures c { unimplemented!() }
// R-ABORT: `unreachable!()/todo!()/panic!()`: reaching it is a failed obligation
#[verifier::external_body]
pub fn rt_abort() -> ! requires false { unimplemented!() }

// R-ITER.slice_from: `X[a..]` panics unless a <= X.len(): a proof obligation (verified body, nothing assumed)
pub fn slice_from_check(a: usize, n: usize) -> (r: usize) requires a <= n ensures r == a { a }
// R-OPAQUE.init: an arbitrary value of the local's type (see the rule: the initialiser is dropped, nothing is assumed of the value)
#[verifier::external_body]
pub fn vx_arbitrary<T>() -> (r: T) { unimplemented!() }

// R-VEC: `vec![e; n]`
#[verifier::external_body]
pub fn vec_repeat<T: Copy>(el: T, n: usize) -> (r: Vec<T>)
    ensures r.len() == n, forall|i: int| 0 <= i < n ==> r@[i] == el
{ unimplemented!() }
